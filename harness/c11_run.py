"""C11 - per-case execution: implementation observations, the property oracle
(a direct executable reading of the property statement) and the list of
checks handed to the Coq model.

Tolerances (stated once; calibrated on the unchanged tree, see notes/C11.md):
  norm of a noiseless state            |norm - 1|            <= 1e-3   (observed <= 2.2e-5)
  density matrix trace                 |tr - 1|              <= 1e-9   (observed <= 4e-15; 2e-3 for V2's average of
                                                                        unnormalised kets in the stochastic branch)
  density matrix hermiticity           max|rho - rho^+|      <= 1e-9   (observed <= 2e-15)
  density matrix positivity            min eigenvalue        >= -1e-4  (observed >= -2.3e-7 on the legacy path,
                                                                        -1.01e-5 on V2, whose solver runs without max_step)
  Rabi populations (interior times)    |p - sin^2(Om t / 2)| <= 1e-3   (observed <= 2.3e-5; after an idle period,
                                                                        final time: max(1e-3, 1.2e-3*Om), observed ratio <= 0.07)
  zero drive                           max|psi_t - psi_0|    <= 1e-9
  legacy vs V2 states                  max|rho_l - rho_v|    <= 2e-3   (observed <= 2e-4)
  distributions                        |p - q|               <= 1e-9
The ODE solver runs with QuTiP's default rtol=1e-6 / atol=1e-8.
"""
from __future__ import annotations

import math
from collections import Counter

import numpy as np
import qutip

from harness import c11_impl as I
from harness.framework import Violation

TOL_NORM = 1e-3
TOL_TRACE = 1e-9
TOL_HERM = 1e-9
TOL_POS = 1e-4
TOL_RABI = 1e-3
TOL_ZERO = 1e-9
TOL_STATE = 2e-3
TOL_DIST = 1e-9

INFER = {frozenset("rg"): "r", frozenset("gh"): "h", frozenset("ud"): "d"}

LEGIT_LEGACY_REJECTIONS = (
    # the only rejection a generated emulation case may legitimately meet:
    # fewer than 4 Hamiltonian samples at the chosen sampling rate
    "`sampling_rate` is too small",
)


# ------------------------------------------------------------------ oracle helpers
def expected_dist(probs: np.ndarray, eig: list[str], n: int, one_label: str) -> dict[str, float]:
    """P(bitstring) read directly off the statement: atom k (register order =
    tensor order, first atom most significant) reads 1 iff it is in the one
    state of the measurement basis, every other state reads 0."""
    d = len(eig)
    out: dict[str, float] = {}
    tot = float(np.sum(probs))
    if tot == 0.0:
        return {}
    for i, p in enumerate(probs):
        digs = []
        x = i
        for _ in range(n):
            digs.append(x % d)
            x //= d
        digs.reverse()
        b = "".join("1" if eig[g] == one_label else "0" for g in digs)
        out[b] = out.get(b, 0.0) + float(p)
    return {k: v / tot for k, v in out.items()}


def dist_diff(a: dict, b: dict) -> float:
    keys = set(a) | set(b)
    return max((abs(float(a.get(k, 0.0)) - float(b.get(k, 0.0))) for k in keys), default=0.0)


def physical(q: qutip.Qobj, who: str, bad, trace_tol: float = TOL_TRACE):
    if q.isket:
        nrm = float(q.norm())
        if not abs(nrm - 1) <= TOL_NORM:
            bad(f"{who}:norm-drift", f"norm of the emulated state is {nrm!r}")
        return
    a = q.full()
    tr = complex(np.trace(a))
    if not abs(tr - 1) <= trace_tol:
        bad(f"{who}:trace", f"trace of the density matrix is {tr!r}")
    h = float(np.abs(a - a.conj().T).max())
    if not h <= TOL_HERM:
        bad(f"{who}:not-hermitian", f"max |rho - rho^dagger| = {h!r}")
    me = float(np.linalg.eigvalsh((a + a.conj().T) / 2).min())
    if not me >= -TOL_POS:
        bad(f"{who}:not-positive", f"smallest eigenvalue of the density matrix is {me!r}")


def expected_last_config(rus, eta) -> list[bool]:
    """the bad-atom configuration the Monte-Carlo loop over state-preparation
    errors should leave loaded: the last entry of Counter(...).most_common()
    (stable sort by decreasing count of the drawn configurations)"""
    from collections import Counter as _C

    cfgs = _C("".join("1" if u < eta else "0" for u in us) for us in rus).most_common()
    return [ch == "1" for ch in cfgs[-1][0]]


def single_pulse(case):
    ps = [o for o in case["ops"] if o["op"] == "pulse"]
    return ps[0] if len(ps) == 1 else None


def start_of_pulse(case):
    t = 0
    for o in case["ops"]:
        if o["op"] == "pulse":
            return t
        if o["op"] == "delay":
            t += o["dur"]
    return t


def classify_v2_error(case, V, T):
    msg = V.get("msg", "")
    nz = case.get("noise") or {}
    v2 = case.get("v2") or {}
    if V["err"] == "ValueError" and "extends further than sequence duration" in msg:
        rels = []
        d = v2.get("default", None)
        if d is None:
            rels = [1.0]
        elif d != "Full":
            rels = list(d)
        rels += list(v2.get("obs_times") or [])
        if any(r * T * 1e-3 > T / 1000 for r in rels) and all(0.0 <= r <= 1.0 for r in rels):
            return "v2-raises:eval-time-rounding"
    if V["err"] == "ValueError" and "truth value of an" in msg and V.get("stage") == "init":
        d = v2.get("default", None)
        if d is not None and d != "Full" and len(d) != 1:
            return "v2-raises:config-recreation-array-eval-times"
    if V["err"] == "ValueError" and "is incompatible with a system of" in msg and nz.get("with_leakage"):
        return "v2-raises:leakage-eigenstates"
    if V["err"] in ("TypeError", "ValueError") and "ncompatible" in msg and V.get("stage") == "run":
        stochastic = ("temperature" in nz) or nz.get("amp_sigma", 0) or nz.get("state_prep_error", 0)
        if stochastic and len(I.expected_eigenbasis(case)) > 2:
            return "v2-raises:stochastic-multilevel"
    return f"v2-raises:{V['err']}"


# ------------------------------------------------------------------ emu cases
def sampling_checks(case, n, state: qutip.Qobj, res_obj, meas, matching, eig, viols_bad, checks, who):
    """weights / bitstring-probability / sampling observations on one state"""
    seed = case.get("seed", 0)
    N = case.get("n_samples", 50)
    probs = I.probs_of_state(state)
    # --- legacy weights
    st, w, r = I.call_weights(n, meas, matching, state)
    d = int(round(len(probs) ** (1.0 / n)))
    if st == "ok":
        unit, (pz, wz) = I.exact_ints([probs, w])
        checks.append(dict(c="weights", meas=I.MEAS_CODE.get(meas, 9), d=d, n=n, matching=matching,
                           unit=unit, probs=pz, status="ok", impl=wz))
    else:
        unit, (pz,) = I.exact_ints([probs])
        checks.append(dict(c="weights", meas=I.MEAS_CODE.get(meas, 9), d=d, n=n, matching=matching,
                           unit=unit, probs=pz, status="err", impl=w))
    return st, w, r


def run_emu(case0):
    viols: list[Violation] = []
    checks: list[dict] = []
    info = dict(kind="emu", family=case0.get("family"), nontrivial=False)
    # the legacy emulator is given the noise the V2 backend is REQUIRED to use
    # (the device's default noise model only if the configuration prefers it);
    # V2 itself gets the configuration, the flag and the device
    case = dict(case0, noise=I.effective_noise(case0))
    info["device_noise"] = bool(case0.get("device_noise"))
    info["prefer"] = bool(case0.get("prefer"))

    def bad(sig, what, detail=None):
        viols.append(Violation(sig, what, case0, detail))

    try:
        seq = I.build_sequence(case)
    except Exception as e:  # noqa: BLE001
        info["build_error"] = f"{type(e).__name__}: {e}"[:200]
        return dict(info=info, checks=checks), viols
    n = case["n"]
    L = I.run_legacy(case, seq)
    T = L.get("T")
    info["T"] = T
    if not L["ok"]:
        if not any(m in L.get("msg", "") for m in LEGIT_LEGACY_REJECTIONS):
            bad(f"legacy-raises:{L['err']}", f"QutipEmulator failed on a valid sequence: {L.get('msg')}")
        info["legacy_error"] = L.get("msg")
        return dict(info=info, checks=checks), viols
    info["nontrivial"] = True
    info["legacy_kind"] = L["kind"]
    emu = L["emu"]
    res = L["results"]
    eig = I.expected_eigenbasis(case)
    meas = I.expected_meas_basis(case)
    info["dim"] = len(eig)
    info["meas"] = meas

    # ---- a user-supplied initial state is normalised by the emulator
    if case.get("init"):
        v = I.init_vector(case)
        got = emu.initial_state.full().ravel()
        nrm = float(np.linalg.norm(got))
        if abs(nrm - 1) > 1e-12:
            bad("initial-state-not-normalised", f"set_initial_state({case['init'].get('form')}) left a state of norm {nrm!r}")
        elif float(np.abs(got - v / np.linalg.norm(v)).max()) > 1e-12:
            bad("initial-state-wrong", "the initial state is not the normalised user state")

    # ---- evaluation times of the legacy emulator (bit-exact model)
    ev = case.get("eval") or {"t": "Full"}
    arg = I.eval_arg_legacy(case, T)
    spec = (ev["t"],) if ev["t"] in ("Full", "Minimal") else (("float", arg) if ev["t"] == "float" else ("list", arg))
    labels = [r.evaluation_time for r in res]
    checks.append(dict(c="eval_legacy", rate=case.get("rate", 1.0), T=T, ev=spec, status="ok",
                       impl=list(L["times"]), labels=labels))

    if L["kind"] == "CoherentResults":
        states = L["states"]
        # ---- physicality of every returned state
        for s in states:
            physical(s, "legacy", bad)
            if viols:
                break
        # ---- conventions on the final result and on one intermediate result
        for idx in sorted({len(states) - 1, len(states) // 2}):
            r = res[idx]
            probs = I.probs_of_state(r.state)
            if meas in I.ONE_STATE:
                exp = expected_dist(probs, eig, n, I.ONE_STATE[meas])
                got = {k: float(v) for k, v in r.sampling_dist.items()}
                if any(len(k) != n or set(k) - {"0", "1"} for k in got):
                    bad("bitstring-shape", f"sampling_dist has keys {sorted(got)[:4]} for {n} atoms")
                elif dist_diff(exp, got) > TOL_DIST:
                    bad("bitstring-convention", f"sampling_dist {got} differs from the distribution read off the state {exp} (basis {eig}, measured in {meas})")
                if abs(sum(got.values()) - 1) > TOL_DIST:
                    bad("sampling-dist-sum", f"sampling_dist sums to {sum(got.values())!r}")
            sampling_checks(case, n, r.state, r, r.meas_basis, r.matching_meas_basis, eig, bad, checks, "legacy")
        # ---- the final state is looked up by time
        tl = [float(x) for x in L["times"]]
        try:
            idx_impl = res._get_index_from_time(tl[-1])
            checks.append(dict(c="index", t=tl[-1], tol=1e-3, times=tl, status="ok", impl=idx_impl))
        except Exception as e:  # noqa: BLE001
            checks.append(dict(c="index", t=tl[-1], tol=1e-3, times=tl, status="err", impl=I.err_code(e)))
            idx_impl = None
        fin = res.get_final_state(ignore_global_phase=False)
        dfin = float(np.abs(I.qobj_dm(fin) - I.qobj_dm(states[-1])).max())
        if idx_impl != len(states) - 1 or dfin > 1e-12:
            bad("legacy-final-state-lookup:previous-sample",
                f"get_final_state() returns the state of evaluation index {idx_impl} of {len(states)} (differs from the last state by {dfin:.3g})")
        # ---- sampling with and without detection errors (legacy)
        N = case.get("n_samples", 50)
        spam = case.get("spam")
        from pulser_simulation.simresults import CoherentResults

        merr = None if spam is None else {"epsilon": spam["eps"], "epsilon_prime": spam["eps_p"]}
        try:
            cr = CoherentResults(list(res), n, emu.basis_name, L["times"], emu._meas_basis, merr)
            t_samp = tl[-1]
            k_samp = cr._get_index_from_time(t_samp)
            wts = np.array(res[k_samp]._weights(), dtype=float)
            us, flips = I.draws_legacy(case.get("seed", 0), N, n)
            I.seeded(case.get("seed", 0))
            cnt = cr.sample_state(t_samp, N)
            dense = I.counter_dense(cnt, n)
            checks.append(dict(c="sample_legacy", n=n, weights=list(wts), us=list(us),
                               eps=0.0 if spam is None else spam["eps"],
                               eps_p=0.0 if spam is None else spam["eps_p"],
                               flips=[] if spam is None else list(flips.flatten()), impl=dense))
            if sum(cnt.values()) != N:
                bad("sample-count", f"sample_state returned {sum(cnt.values())} shots for {N} requested")
            if any(len(k) != n or set(k) - {"0", "1"} for k in cnt):
                bad("bitstring-shape", f"sampled bitstrings {sorted(cnt)[:4]} for {n} atoms")
            # detection errors at the extreme rates are deterministic
            if spam is not None and spam["eps"] == 1.0 and spam["eps_p"] == 0.0:
                if set(cnt) != {"1" * n}:
                    bad("detection-flip", f"epsilon=1, epsilon'=0 must turn every 0 into 1; got {dict(cnt)}")
            if spam is not None and spam["eps"] == 0.0 and spam["eps_p"] == 1.0:
                if set(cnt) != {"0" * n}:
                    bad("detection-flip", f"epsilon=0, epsilon'=1 must turn every 1 into 0; got {dict(cnt)}")
        except Exception as e:  # noqa: BLE001
            bad(f"sample-state-raises:{type(e).__name__}", f"sample_state failed: {e}")

        # ---- analytic references
        fam = case.get("family")
        if fam in ("rabi", "idle"):
            p = single_pulse(case)
            om = p["amp"]
            t0 = start_of_pulse(case)
            one_label = I.ONE_STATE[meas]
            k_one = eig.index(one_label)
            rate = case.get("rate", 1.0)
            worst = 0.0
            for s, t in zip(states, tl):
                tn = t * 1000 - t0
                a = s.full().ravel()
                pop = float(abs(a[k_one]) ** 2)
                if fam == "rabi":
                    if tn < 0 or tn > p["dur"] - 3:
                        continue
                    ref = math.sin(om * tn * 1e-3 / 2) ** 2
                else:
                    if abs(t * 1000 - T) > 1e-6:
                        continue
                    # the coefficient is interpolated between 1 ns samples: the
                    # switch-off ramp adds at most half a sample of area
                    ref = math.sin(om * p["dur"] * 1e-3 / 2) ** 2
                worst = max(worst, abs(pop - ref))
            tol = TOL_RABI if fam == "rabi" else max(TOL_RABI, 1.2 * om * 1e-3)
            if worst > tol:
                bad("rabi-oscillation" if fam == "rabi" else "idle-then-pulse",
                    f"population of the one state deviates from sin^2(Omega t/2) by {worst:.3g} (Omega={om:.4g}, pulse of {p['dur']} ns starting at {t0} ns)")
        if fam == "zero" and "depolarizing_rate" not in (case.get("noise") or {}):
            # (a depolarizing channel, if one is really configured, acts on the ground state too)
            init = I.qobj_dm(emu.initial_state)
            worst = max(float(np.abs(I.qobj_dm(s) - init).max()) for s in states)
            if worst > TOL_ZERO:
                bad("zero-drive-changes-state", f"an all-zero drive moved the state by {worst:.3g}")
        if fam == "pilocal":
            want = "".join("1" if q in case["subset"] else "0" for q in range(n))
            got = {k: float(v) for k, v in res[-1].sampling_dist.items()}
            if got.get(want, 0.0) < 0.995:
                bad("register-order", f"pi pulses on atoms {case['subset']} must give bitstring {want}; distribution {got}")
    else:
        # NoisyResults: distributions of counts
        if case.get("family") == "noisyidle":
            # negligible noise: the counts follow the analytic Rabi population
            p = single_pulse(case)
            nzc = case.get("noise") or {}
            shots = nzc.get("runs", 15) * nzc.get("samples_per_run", 5)
            ref = math.sin(p["amp"] * p["dur"] * 1e-3 / 2) ** 2
            got1 = float(res[-1].sampling_dist.get("1", 0.0))
            tol = 6 * math.sqrt(max(ref * (1 - ref), 0.0) / shots) + 0.02
            info["noisy_path_p1"] = (got1, ref, tol)
            all_bad = False
            if nzc.get("state_prep_error"):
                # the draws of _noisy_runs, reproduced from the seed
                I.seeded(case.get("seed", 0))
                rus = [np.random.uniform(size=n) for _ in range(nzc.get("runs", 15))]
                want = expected_last_config(rus, nzc["state_prep_error"])
                have = [bool(emu._hamiltonian._bad_atoms[q]) for q in I.qids_of(case)]
                if have != want:
                    all_bad = all(have)
                    bad("spam-prep:all-atoms-bad" if all_bad else "spam-prep:loaded-config-differs",
                        f"the Monte-Carlo loop drew the configuration {want} last but left {have} loaded")
            if not all_bad and abs(got1 - ref) > tol:
                bad("idle-then-pulse:noisy-path",
                    f"on the Monte-Carlo path P(1) = {got1:.3f} after an idle period and a pulse of area {p['amp'] * p['dur'] * 1e-3:.4g}; analytic {ref:.3f} (tolerance {tol:.3f}, {shots} shots)")
        for r in res:
            got = {k: float(v) for k, v in r.sampling_dist.items()}
            if abs(sum(got.values()) - 1) > TOL_DIST:
                bad("sampling-dist-sum", f"sampling_dist of a noisy result sums to {sum(got.values())!r}")
                break
            if any(len(k) != n or set(k) - {"0", "1"} for k in got):
                bad("bitstring-shape", f"noisy result has keys {sorted(got)[:4]} for {n} atoms")
                break

    # ---- V2 backend on the same sequence and configuration
    V = I.run_v2(case0, seq)
    info["v2_ok"] = V["ok"]
    v2 = case.get("v2") or {}
    default = v2.get("default", [1.0])
    obs_times = list(v2.get("obs_times") or [])
    if V.get("times") is not None:
        checks.append(dict(c="eval_v2", rate=case.get("rate", 1.0), T=T,
                           default=None if default == "Full" else list(default), extra=obs_times,
                           status="ok", impl=list(V["times"])))
    if not V["ok"]:
        sig = classify_v2_error(case, V, T)
        info["v2_error"] = sig
        bad(sig, f"QutipBackendV2 fails ({V['err']}: {V.get('msg')}) where the legacy emulator runs")
        if V.get("stage") == "init" and "extends further" in V.get("msg", ""):
            checks.append(dict(c="eval_v2", rate=case.get("rate", 1.0), T=T,
                               default=None if default == "Full" else list(default), extra=obs_times,
                               status="err", impl=1))
        return dict(info=info, checks=checks), viols

    nz = case.get("noise") or {}
    stochastic = ("temperature" in nz) or bool(nz.get("amp_sigma")) or bool(nz.get("state_prep_error"))
    info["v2_stochastic"] = stochastic
    dissipative = any(k in nz for k in ("dephasing_rate", "hyperfine_dephasing_rate", "relaxation_rate",
                                        "depolarizing_rate", "eff_noise_rates"))
    info["v2_dissipative"] = dissipative
    for qs in V["states"]:
        # the stochastic branch averages |psi><psi| of unnormalised solver
        # outputs: its trace carries the norm drift of the kets (with a
        # dissipative channel every run is a master-equation run of unit trace)
        physical(qs._state, "v2", bad,
                 trace_tol=2 * TOL_NORM if (stochastic and not dissipative) else TOL_TRACE)
        if any(v.signature.startswith("v2:") for v in viols):
            break
    if not stochastic and not dissipative:
        # no noise is configured (and none preferred from the device): the
        # emulated state is a pure state
        for lab, qs in zip(V["labels"], V["states"]):
            rho = I.qobj_dm(qs._state)
            pur = float(np.real(np.trace(rho @ rho)))
            if pur < 1 - 4 * TOL_NORM:
                bad("v2:mixed-state-without-noise",
                    f"V2 returns a state of purity {pur:.4f} at relative time {lab} although no noise is configured")
                break
    if stochastic:
        # the state V2 reports must be the reps-weighted average of the states
        # of the noisy runs: recompute it with the legacy machinery from the
        # same seed (same draws, same solver calls: agreement to rounding)
        try:
            from pulser_simulation import QutipEmulator, SimConfig

            ref = QutipEmulator.from_sequence(seq, sampling_rate=case.get("rate", 1.0),
                                              config=SimConfig.from_noise_model(I.noise_model_of(case)))
            ref.set_evaluation_times(np.array(V["times"]))
            I.seeded(case.get("seed", 0))
            acc: dict = {}
            tot = 0
            reps_seen = []
            for res_i, reps in ref._noisy_runs(progress_bar=False):
                tot += reps
                reps_seen.append(int(reps))
                for r in res_i:
                    acc[r.evaluation_time] = acc.get(r.evaluation_time, 0) + reps * I.qobj_dm(r.state)
            info["stoch_reps"] = reps_seen
            worst_avg = 0.0
            for lab, qs in zip(V["labels"], V["states"]):
                if lab in acc:
                    worst_avg = max(worst_avg, float(np.abs(acc[lab] / tot - I.qobj_dm(qs._state)).max()))
            info["v2_stoch_avg_diff"] = worst_avg
            if worst_avg > 1e-9:
                bad("v2-stochastic-average",
                    f"V2's state differs by {worst_avg:.3g} from the reps-weighted average of the noisy runs (reps {reps_seen})")
        except Exception as e:  # noqa: BLE001
            info["stoch_ref_error"] = f"{type(e).__name__}: {e}"[:200]
    # V2 state conventions (bitstring_probabilities / sample) on the final state
    vs_final = V["states"][-1]
    try:
        eig_v2 = list(vs_final.eigenstates)
        one = I.ONE_STATE.get(meas) if I.ONE_STATE.get(meas) in eig_v2 else None
        inferable = set(eig_v2) in ({"r", "g"}, {"g", "h"}, {"u", "d"})
        if inferable or one is not None:
            N = case.get("n_samples", 50)
            cutoff = 1 / (1000 * N)
            st, bp, sobj = I.call_bitprobs(vs_final._state, eig_v2, one if not inferable else None, cutoff)
            probs = I.probs_of_state(vs_final._state)
            if st == "ok":
                unit, (pz, bz, cz) = I.exact_ints([probs, [v for _, v in bp], [cutoff]])
                checks.append(dict(c="bitprobs", d=len(eig_v2), n=n, eig=[I.STATE_CODE[s] for s in eig_v2],
                                   one=None if inferable else I.STATE_CODE[one], cutoff=cz[0], unit=unit,
                                   probs=pz, status="ok", impl=[(int(k, 2), v) for (k, _), v in zip(bp, bz)]))
                one_label = INFER[frozenset(eig_v2)] if inferable else one
                kept = np.where(probs > cutoff, probs, 0.0)
                exp = expected_dist(kept, eig_v2, n, one_label)
                exp = {k: v for k, v in exp.items() if v > 0}
                got = dict(bp)
                if dist_diff(exp, got) > TOL_DIST:
                    bad("v2-bitstring-convention", f"bitstring_probabilities {got} differs from {exp}")
                if abs(sum(got.values()) - 1) > TOL_DIST:
                    bad("v2-bitprob-sum", f"bitstring probabilities sum to {sum(got.values())!r}")
                spam = case.get("spam")
                pfp = 0.0 if spam is None else spam["eps"]
                pfn = 0.0 if spam is None else spam["eps_p"]
                us, flips = I.draws_legacy(case.get("seed", 0) + 1, N, n)
                I.seeded(case.get("seed", 0) + 1)
                cnt = sobj.sample(num_shots=N, one_state=one if not inferable else None, p_false_pos=pfp, p_false_neg=pfn)
                checks.append(dict(c="sample_v2", n=n, keys=[int(k, 2) for k, _ in bp], probs=[v for _, v in bp],
                                   us=list(us), pfp=pfp, pfn=pfn,
                                   flips=[] if (pfp == 0.0 and pfn == 0.0) else list(flips.flatten()),
                                   impl=I.counter_dense(Counter({str(k): int(v) for k, v in cnt.items()}), n)))
                if sum(cnt.values()) != N:
                    bad("v2-sample-count", f"QutipState.sample returned {sum(cnt.values())} shots for {N}")
                if pfp == 1.0 and pfn == 0.0 and set(map(str, cnt)) != {"1" * n}:
                    bad("v2-detection-flip", f"p_false_pos=1 must turn every 0 into 1; got {dict(cnt)}")
                if pfp == 0.0 and pfn == 1.0 and set(map(str, cnt)) != {"0" * n}:
                    bad("v2-detection-flip", f"p_false_neg=1 must turn every 1 into 0; got {dict(cnt)}")
    except Exception as e:  # noqa: BLE001
        bad(f"v2-state-api-raises:{type(e).__name__}", f"QutipState API failed on the emulated state: {e}")

    if case.get("family") == "zero" and not stochastic and "depolarizing_rate" not in nz:
        init_dm = I.qobj_dm(L["emu"].initial_state)
        worst0 = max(float(np.abs(I.qobj_dm(qs._state) - init_dm).max()) for qs in V["states"])
        if worst0 > TOL_ZERO:
            bad("v2-zero-drive-changes-state", f"an all-zero drive moved the V2 state by {worst0:.3g}")
    # ---- legacy vs V2: same states at the same times (a stochastic noise
    # model draws different random detunings / amplitudes / bad atoms in the
    # two runs: only physicality is checked there)
    if L["kind"] == "CoherentResults" and not stochastic:
        tl = [float(x) for x in L["times"]]
        worst, where = 0.0, None
        matched = 0
        for lab, qs in zip(V["labels"], V["states"]):
            t_abs = lab * T / 1000
            j = int(np.argmin([abs(t - t_abs) for t in tl]))
            if abs(tl[j] - t_abs) > 1e-9:
                continue
            matched += 1
            dd = float(np.abs(I.qobj_dm(states[j]) - I.qobj_dm(qs._state)).max())
            if dd > worst:
                worst, where = dd, lab
        info["v2_matched_times"] = matched
        info["v2_state_diff"] = worst
        want_labels = [1.0] if default != "Full" and not obs_times and default == [1.0] else None
        if matched == 0:
            bad("v2-no-common-time", f"no V2 result time {V['labels'][:4]} matches a legacy evaluation time")
        if worst > TOL_STATE:
            # is the whole difference the missing max_step default?
            sig = "v2-state-differs"
            try:
                sim = V["backend"]._sim_obj
                I.seeded(case.get("seed", 0))
                with_opts = sim.run()
                j = int(np.argmin([abs(float(t) - where * T / 1000) for t in sim._eval_times_array]))
                d_leg = float(np.abs(I.qobj_dm(with_opts.states[j]) - I.qobj_dm(states[int(np.argmin([abs(t - where * T / 1000) for t in tl]))])).max())
                raw = sim._run_solver(progress_bar=False)
                k = [i for i, lab in enumerate(V["labels"]) if lab == where][0]
                d_raw = float(np.abs(I.qobj_dm(raw.states[j]) - I.qobj_dm(V["states"][k]._state)).max())
                if d_leg <= TOL_STATE and d_raw <= 1e-9:
                    sig = "v2-state-differs:no-max-step"
            except Exception:  # noqa: BLE001
                pass
            bad(sig, f"V2 state at relative time {where} differs from the legacy state by {worst:.3g} (T={T} ns)")
    return dict(info=info, checks=checks), viols


# ------------------------------------------------------------------ synthetic states
def run_weights(case):
    viols: list[Violation] = []
    checks: list[dict] = []

    def bad(sig, what, detail=None):
        viols.append(Violation(sig, what, case, detail))

    d, n = case["d"], case["n"]
    v = np.array([complex(a, b) for a, b in case["amps"]])
    if case.get("normalise"):
        v = v / np.linalg.norm(v)
    dims = [[d] * n, [1] * n]
    ket = qutip.Qobj(v.reshape(-1, 1), dims=dims)
    if case.get("dm"):
        # a mixture of the ket with a diagonal state: still a valid (unnormalised) density matrix
        diag = np.abs(v) ** 2
        rho = 0.5 * (ket * ket.dag()).full() + 0.5 * np.diag(diag)
        state = qutip.Qobj(rho, dims=[[d] * n, [d] * n])
    else:
        state = ket
    meas, matching = case["meas"], case["matching"]
    probs = I.probs_of_state(state)
    st, w, r = I.call_weights(n, meas, matching, state)
    unit_in = [probs] + ([w] if st == "ok" else [])
    unit, ints = I.exact_ints(unit_in)
    checks.append(dict(c="weights", meas=I.MEAS_CODE.get(meas, 9), d=d, n=n, matching=matching, unit=unit,
                       probs=ints[0], status=st, impl=ints[1] if st == "ok" else w))
    info = dict(kind="weights", d=d, n=n, meas=meas, matching=matching, status=st, nontrivial=True)
    # the eigenbasis the legacy result assumes, independently tabulated
    table = {
        ("ground-rydberg", 2, True): ["r", "g"], ("digital", 2, True): ["g", "h"], ("XY", 2, True): ["u", "d"],
        ("ground-rydberg", 2, False): ["g", "h"], ("digital", 2, False): ["r", "g"],
        ("ground-rydberg", 3, True): ["r", "g", "x"], ("digital", 3, True): ["g", "h", "x"],
        ("XY", 3, True): ["u", "d", "x"], ("XY", 3, False): ["u", "d", "x"],
        ("ground-rydberg", 3, False): ["r", "g", "h"], ("digital", 3, False): ["r", "g", "h"],
        ("ground-rydberg", 4, True): ["r", "g", "h", "x"], ("ground-rydberg", 4, False): ["r", "g", "h", "x"],
        ("digital", 4, True): ["r", "g", "h", "x"], ("digital", 4, False): ["r", "g", "h", "x"],
    }
    eig = table.get((meas, d, matching))
    if eig is not None:
        if st != "ok":
            bad(f"weights-raises:{w}", f"_weights failed on a {d}-level state measured in {meas}")
        else:
            exp = expected_dist(probs, eig, n, I.ONE_STATE[meas])
            got = {k: float(x) for k, x in r.sampling_dist.items()}
            exp = {k: x for k, x in exp.items() if x != 0}
            if dist_diff(exp, got) > TOL_DIST or set(exp) != set(got):
                bad("bitstring-convention", f"sampling_dist {got} differs from {exp} (basis {eig}, measured in {meas})")
            if abs(sum(got.values()) - 1) > TOL_DIST:
                bad("sampling-dist-sum", f"sampling_dist sums to {sum(got.values())!r}")
            # sampling without / with detection errors through CoherentResults
            N = case["n_samples"]
            us, flips = I.draws_legacy(case["seed"], N, n)
            I.seeded(case["seed"])
            cnt = r.get_samples(N)
            checks.append(dict(c="sample_legacy", n=n, weights=list(np.array(w, dtype=float)), us=list(us),
                               eps=0.0, eps_p=0.0, flips=[], impl=I.counter_dense(cnt, n)))
            if sum(cnt.values()) != N:
                bad("sample-count", f"get_samples returned {sum(cnt.values())} shots for {N}")
            if not set(cnt) <= set(got):
                bad("sample-outside-support", f"sampled {sorted(set(cnt) - set(got))} has zero probability")

    # ---- multinomial with chosen draws: interior points and the boundaries
    # (a draw equal to a cumulative sum belongs to the interval it closes)
    if st == "ok":
        from unittest import mock

        from pulser.math.multinomial import multinomial

        wf = np.array(w, dtype=float)
        cs = np.cumsum(wf)
        us = []
        for i, c in enumerate(cs[:-1]):
            us += [float(c), float(np.nextafter(c, 2.0)), float(np.nextafter(c, -1.0))]
        us += [0.0, float(cs[-1]), float(cs[-1]) / 2, float(cs[0]) / 2]
        # np.random.rand draws from [0, 1); a draw above the last cumulative sum
        # (possible only when the weights sum to less than 1 by rounding) is
        # outside the stated intervals and is not generated
        us = [u for u in us if 0.0 <= u < 1.0 and u <= float(cs[-1])][:64]
        with mock.patch("numpy.random.rand", lambda k: np.array(us[:k])):
            idx = [int(x) for x in multinomial(len(us), wf)]
        checks.append(dict(c="multinomial", probs=list(wf), us=us, impl=idx))
        for u, i in zip(us, idx):
            lo = cs[i - 1] if i > 0 else -1.0
            if not (i < len(cs) and lo < u <= cs[i]):
                bad("multinomial-interval", f"draw {u!r} selected index {i}, whose interval is ({lo!r}, {cs[min(i, len(cs) - 1)]!r}]")
                break

    # ---- V2 state API on the same state
    basis_for = {
        2: [["r", "g"], ["g", "h"], ["u", "d"]],
        3: [["r", "g", "h"], ["r", "g", "x"], ["g", "h", "x"], ["u", "d", "x"]],
        4: [["r", "g", "h", "x"]],
    }[d]
    eig2 = basis_for[case["seed"] % len(basis_for)]
    one = case.get("one_state")
    cutoff = case.get("cutoff")
    st2, bp, sobj = I.call_bitprobs(state, eig2, one, cutoff)
    cut_f = 1e-12 if cutoff is None else cutoff
    if st2 == "ok":
        unit, (pz, bz, cz) = I.exact_ints([probs, [x for _, x in bp], [cut_f]])
        checks.append(dict(c="bitprobs", d=d, n=n, eig=[I.STATE_CODE[s] for s in eig2],
                           one=None if one is None else I.STATE_CODE[one], cutoff=cz[0], unit=unit, probs=pz,
                           status="ok", impl=[(int(k, 2), x) for (k, _), x in zip(bp, bz)]))
        one_label = one or INFER[frozenset(eig2)]
        kept = np.where(probs > cut_f, probs, 0.0)
        exp = {k: x for k, x in expected_dist(kept, eig2, n, one_label).items() if x > 0}
        got = dict(bp)
        if dist_diff(exp, got) > TOL_DIST or set(exp) != set(got):
            bad("v2-bitstring-convention", f"bitstring_probabilities {got} differs from {exp} (eigenstates {eig2}, one state {one_label})")
        if exp and abs(sum(got.values()) - 1) > TOL_DIST:
            bad("v2-bitprob-sum", f"bitstring probabilities sum to {sum(got.values())!r}")
        # sampling with detection errors
        N = case["n_samples"]
        pfp, pfn = case["rates"]
        try:
            if not sobj.bitstring_probabilities(one_state=one, cutoff=1 / (1000 * N)):
                raise StopIteration
            bp_s = sobj.bitstring_probabilities(one_state=one, cutoff=1 / (1000 * N))
            us, flips = I.draws_legacy(case["seed"] + 1, N, n)
            I.seeded(case["seed"] + 1)
            cnt = sobj.sample(num_shots=N, one_state=one, p_false_pos=pfp, p_false_neg=pfn)
            checks.append(dict(c="sample_v2", n=n, keys=[int(k, 2) for k in bp_s], probs=[float(x) for x in bp_s.values()],
                               us=list(us), pfp=pfp, pfn=pfn,
                               flips=[] if (pfp == 0.0 and pfn == 0.0) else list(flips.flatten()),
                               impl=I.counter_dense(Counter({str(k): int(x) for k, x in cnt.items()}), n)))
            if sum(cnt.values()) != N:
                bad("v2-sample-count", f"QutipState.sample returned {sum(cnt.values())} shots for {N}")
            if pfp == 1.0 and pfn == 0.0 and set(map(str, cnt)) != {"1" * n}:
                bad("v2-detection-flip", f"p_false_pos=1 must turn every 0 into 1; got {dict(cnt)}")
            if pfp == 0.0 and pfn == 1.0 and set(map(str, cnt)) != {"0" * n}:
                bad("v2-detection-flip", f"p_false_neg=1 must turn every 1 into 0; got {dict(cnt)}")
        except StopIteration:
            pass  # every probability is below the sampling cutoff: nothing to sample
        except Exception as e:  # noqa: BLE001
            bad(f"v2-sample-raises:{type(e).__name__}", f"QutipState.sample failed: {e}")
    else:
        unit, (pz, cz) = I.exact_ints([probs, [cut_f]])
        checks.append(dict(c="bitprobs", d=d, n=n, eig=[I.STATE_CODE[s] for s in eig2],
                           one=None if one is None else I.STATE_CODE[one], cutoff=cz[0], unit=unit, probs=pz,
                           status="err", impl=bp))
        inferable = frozenset(eig2) in (frozenset("rg"), frozenset("gh"), frozenset("ud"))
        if inferable or one is not None:
            bad(f"v2-bitprobs-raises:{bp}", f"bitstring_probabilities failed for eigenstates {eig2}, one_state {one}")
    return dict(info=info, checks=checks), viols


# ------------------------------------------------------------------ evaluation-time cases
def run_times(case):
    viols: list[Violation] = []
    checks: list[dict] = []

    def bad(sig, what, detail=None):
        viols.append(Violation(sig, what, case, detail))

    from pulser import Pulse, Register, Sequence
    from pulser.backend.default_observables import StateResult
    from pulser.devices import MockDevice
    from pulser_simulation import QutipBackendV2, QutipConfig, QutipEmulator

    T, rate = case["T"], case["rate"]
    seq = Sequence(Register({"q0": (0.0, 0.0)}), MockDevice)
    seq.declare_channel("ryd", "rydberg_global")
    seq.add(Pulse.ConstantPulse(T, 1.0, 0.0, 0.0), "ryd")
    info = dict(kind="times", T=T, nontrivial=True)
    ev = case["eval"]
    arg = I.eval_arg_legacy(case, T)
    spec = (ev["t"],) if ev["t"] in ("Full", "Minimal") else (("float", arg) if ev["t"] == "float" else ("list", arg))
    legacy_ok = False
    if int(T * rate) >= 4:
        try:
            emu = QutipEmulator.from_sequence(seq, sampling_rate=rate, evaluation_times=arg)
            times = [float(x) for x in emu._eval_times_array]
            labels = [float(t / T * 1e3) for t in emu._eval_times_array]
            checks.append(dict(c="eval_legacy", rate=rate, T=T, ev=spec, status="ok", impl=times,
                               labels=labels))
            legacy_ok = True
            if times[0] != 0.0 or times[-1] != T / 1000:
                bad("legacy-eval-times-ends", f"evaluation times {times[:2]}..{times[-2:]} do not start at 0 and end at T/1000")
            if any(b <= a for a, b in zip(times, times[1:])):
                bad("legacy-eval-times-order", "evaluation times are not strictly increasing")
        except Exception as e:  # noqa: BLE001
            checks.append(dict(c="eval_legacy", rate=rate, T=T, ev=spec, status="err", impl=I.err_code(e)))
            info["legacy_error"] = str(e)[:100]
            in_range = ev["t"] in ("Full", "Minimal") or (ev["t"] == "float" and 0 < ev["v"] <= 1) or ev["t"] == "list"
            if in_range:
                bad(f"legacy-rejects-valid-eval-times:{type(e).__name__}", f"set_evaluation_times rejected {ev}: {e}")
    # V2
    v2 = case.get("v2") or {}
    default = v2.get("default", [1.0])
    obs_times = list(v2.get("obs_times") or [])
    # configuration creation / re-creation
    dspec = ("Full",) if default == "Full" else ("Seq", list(default))
    first = second = None
    cfg = None
    try:
        kw = {} if "default" not in v2 else {"default_evaluation_times": default if default == "Full" else list(default)}
        obs = StateResult(evaluation_times=obs_times) if obs_times else StateResult()
        cfg = QutipConfig(observables=[obs], sampling_rate=rate, **kw)
        first = 1
    except Exception as e:  # noqa: BLE001
        first = -I.err_code(e)
    if "default" in v2:
        if cfg is not None:
            try:
                QutipConfig(**cfg._backend_options)
                second = 1
            except Exception as e:  # noqa: BLE001
                second = -I.err_code(e)
        else:
            second = first
        checks.append(dict(c="config", d=dspec, first=first, second=second))
        if first == 1 and second != 1:
            sig = "v2-raises:config-recreation-array-eval-times" if (default != "Full" and len(default) != 1) else "v2-raises:config-recreation"
            bad(sig, f"a configuration accepted with default_evaluation_times={default} cannot be re-created by the backend")
    if cfg is not None and int(T * rate) >= 4 and (second in (None, 1)):
        V = dict(stage="init")
        try:
            b = QutipBackendV2(seq, config=cfg)
            vt = [float(x) for x in b._sim_obj._eval_times_array]
            checks.append(dict(c="eval_v2", rate=rate, T=T, default=None if default == "Full" else list(default),
                               extra=obs_times, status="ok", impl=vt))
            # every requested relative time is an evaluation time
            rels = ([] if default == "Full" else list(default)) + obs_times
            for r in rels:
                if min(abs(t - r * T / 1000) for t in vt) > 0.5e-3:
                    bad("v2-eval-time-missing", f"relative time {r} is not among the V2 evaluation times")
            if vt[-1] != T / 1000:
                bad("v2-eval-times-ends", f"V2 evaluation times end at {vt[-1]!r}, not at T/1000")
        except Exception as e:  # noqa: BLE001
            V.update(err=type(e).__name__, msg=str(e)[:300])
            checks.append(dict(c="eval_v2", rate=rate, T=T, default=None if default == "Full" else list(default),
                               extra=obs_times, status="err", impl=I.err_code(e)))
            sig = classify_v2_error(case, V, T)
            info["v2_error"] = sig
            bad(sig, f"QutipBackendV2 cannot be created ({V['err']}: {V['msg']}) for a {T} ns sequence")
    return dict(info=info, checks=checks), viols


# ------------------------------------------------------------------ configuration histories
def run_hist(case):
    viols: list[Violation] = []
    checks: list[dict] = []

    def bad(sig, what, detail=None):
        viols.append(Violation(sig, what, case, detail))

    from pulser_simulation import QutipEmulator, SimConfig

    n = case["n"]
    seq = I.build_sequence(case)
    qids = I.qids_of(case)
    info = dict(kind="hist", nontrivial=True, steps=[s["name"] for s in case["steps"]], T=seq.get_duration())
    ops, observed = [], []
    emu = None

    def bad_map():
        return [bool(emu._hamiltonian._bad_atoms[q]) for q in qids]

    try:
        for i, st in enumerate(case["steps"]):
            kw = dict(st["cfg"])
            kw["noise"] = tuple(kw["noise"])
            cfg = SimConfig(**kw)
            sd = case["seed"] + 11 * i
            I.seeded(sd)
            us = np.random.uniform(size=n)
            I.seeded(sd)
            if emu is None:
                emu = QutipEmulator.from_sequence(seq, config=cfg, evaluation_times="Minimal")
            elif st["how"] == "add":
                emu.add_config(cfg)
            else:
                emu.set_config(cfg)
            nm = emu._hamiltonian.config
            ops.append(("set", "SPAM" in nm.noise_types, float(nm.state_prep_error), [float(u) for u in us]))
            observed.append(bad_map())
            if st["run"]:
                runs = int(emu.config.runs)
                I.seeded(sd + 1)
                rus = [[float(u) for u in np.random.uniform(size=n)] for _ in range(runs)]
                I.seeded(sd + 1)
                emu.run()
                ops.append(("run", rus))
                observed.append(bad_map())
                nm_r = emu._hamiltonian.config
                if "SPAM" in nm_r.noise_types and nm_r.state_prep_error > 0:
                    want = expected_last_config(rus, float(nm_r.state_prep_error))
                    if observed[-1] != want:
                        sig = "spam-prep:all-atoms-bad" if all(observed[-1]) else "spam-prep:loaded-config-differs"
                        bad(sig, f"the Monte-Carlo loop drew the configuration {want} last but left {observed[-1]} loaded")
    except Exception as e:  # noqa: BLE001
        info["history_error"] = f"{type(e).__name__}: {e}"[:200]
        bad(f"config-history-raises:{type(e).__name__}", f"a configuration history failed at step {len(ops)}: {e}")
    if ops:
        checks.append(dict(c="hist", n=n, ops=ops, observed=observed))
    # ---- the emulator behaves as a fresh one with its current configuration
    if emu is not None and all(v.signature == "spam-prep:all-atoms-bad" for v in viols):
        nm = emu._hamiltonian.config
        prep = "SPAM" in nm.noise_types and nm.state_prep_error > 0
        info["final_prep"] = bool(prep)
        if not prep:
            if any(observed[-1]):
                bad("config-history:stale-bad-atoms",
                    f"badly prepared atoms {observed[-1]} under a configuration without state-preparation errors")
            try:
                I.seeded(case["seed"])
                r_hist = emu.run()
                fresh = QutipEmulator.from_sequence(seq, config=emu.config, evaluation_times="Minimal")
                I.seeded(case["seed"])
                r_fresh = fresh.run()
                dd = float(np.abs(I.qobj_dm(r_hist.states[-1]) - I.qobj_dm(r_fresh.states[-1])).max())
                info["hist_vs_fresh"] = dd
                if dd > 1e-9:
                    bad("config-history:differs-from-fresh",
                        f"after the history {info['steps']} the emulator's final state differs by {dd:.3g} from a fresh emulator with the same configuration")
                physical(r_hist.states[-1], "legacy", bad)
            except Exception as e:  # noqa: BLE001
                bad(f"config-history-raises:{type(e).__name__}", f"run after the history failed: {e}")
    return dict(info=info, checks=checks), viols


# ------------------------------------------------------------------ joint flips
def run_flip(case):
    viols: list[Violation] = []
    checks: list[dict] = []

    def bad(sig, what, detail=None):
        viols.append(Violation(sig, what, case, detail))

    from pulser_simulation.simresults import CoherentResults

    n, idx, pfp, pfn, N = case["n"], case["index"], case["pfp"], case["pfn"], case["shots"]
    # basis state number idx of n two-level atoms in the (r, g) basis: r reads 1
    ket = qutip.basis([2] * n, [int(c) for c in np.binary_repr(idx, width=n)])
    bits_in = "".join("1" if c == "0" else "0" for c in np.binary_repr(idx, width=n))  # digit 0 = r
    info = dict(kind="flip", nontrivial=True, n=n, input=bits_in)

    def expected(b):
        p = 1.0
        for a, o in zip(bits_in, b):
            rate = pfn if a == "1" else pfp
            p *= rate if a != o else 1 - rate
        return p

    def judge(cnt, who):
        for k in range(2**n):
            b = np.binary_repr(k, width=n)
            p = expected(b)
            f = cnt.get(b, 0) / N
            if abs(f - p) > 6 * math.sqrt(p * (1 - p) / N) + 1.0 / N:
                bad(f"{who}detection-flip-joint",
                    f"reading {bits_in} with p_false_pos={pfp}, p_false_neg={pfn}: bitstring {b} has frequency {f:.3f}, independent flips give {p:.3f} ({N} shots)")
                return

    # V2
    sobj = QutipStateOf(ket)
    us, flips = I.draws_legacy(case["seed"], N, n)
    I.seeded(case["seed"])
    cnt = sobj.sample(num_shots=N, p_false_pos=pfp, p_false_neg=pfn)
    cnt = Counter({str(k): int(v) for k, v in cnt.items()})
    bp = sobj.bitstring_probabilities(cutoff=1 / (1000 * N))
    checks.append(dict(c="sample_v2", n=n, keys=[int(k, 2) for k in bp], probs=[float(x) for x in bp.values()],
                       us=list(us), pfp=pfp, pfn=pfn, flips=list(flips.flatten()), impl=I.counter_dense(cnt, n)))
    judge(cnt, "v2-")
    # legacy
    r = I.QutipResult(tuple("a%d" % i for i in range(n)), "ground-rydberg", ket, True)
    cr = CoherentResults([r], n, "ground-rydberg", np.array([0.0]), "ground-rydberg",
                         {"epsilon": pfp, "epsilon_prime": pfn})
    I.seeded(case["seed"] + 1)
    us2 = np.random.rand(N)
    fl2 = np.random.uniform(size=(N, n))
    I.seeded(case["seed"] + 1)
    cnt2 = cr.sample_state(0.0, N)
    checks.append(dict(c="sample_legacy", n=n, weights=list(np.array(r._weights(), dtype=float)), us=list(us2),
                       eps=pfp, eps_p=pfn, flips=list(fl2.flatten()), impl=I.counter_dense(cnt2, n)))
    judge(cnt2, "")
    return dict(info=info, checks=checks), viols


def QutipStateOf(ket):
    return I.QutipState(ket, eigenstates=("r", "g"))


def run_case(case):
    k = case.get("kind")
    if k == "flip":
        return run_flip(case)
    if k == "hist":
        return run_hist(case)
    if k == "emu":
        return run_emu(case)
    if k == "weights":
        return run_weights(case)
    if k == "times":
        return run_times(case)
    raise ValueError(k)
