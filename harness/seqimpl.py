"""Runs sequence-building cases on the real Pulser in /repo and renders the
state after every call in the shape of Model/SeqSnap.v.  Also computes the
oracle values the model takes as inputs (pulse summaries, fall times)."""
from __future__ import annotations

import math
import warnings

import numpy as np

import pulser
from pulser import Pulse, Register, Sequence
from pulser.channels import DMM, Microwave, Raman, Rydberg
from pulser.channels.eom import RydbergBeam, RydbergEOM
from pulser.devices import VirtualDevice
from pulser.sequence._schedule import _ChannelSchedule
from pulser.waveforms import (
    BlackmanWaveform,
    CompositeWaveform,
    ConstantWaveform,
    CustomWaveform,
    InterpolatedWaveform,
    KaiserWaveform,
    RampWaveform,
)

BASIS_CODE = {"ground-rydberg": 0, "digital": 1, "XY": 2}
BASIS_NAME = {v: k for k, v in BASIS_CODE.items()}
PROTO = {0: "min-delay", 1: "no-delay", 2: "wait-for-all", 3: "bogus-protocol"}
ERR_CODE = {
    ValueError: 1,
    TypeError: 2,
    RuntimeError: 3,
    IndexError: 4,
    NotImplementedError: 5,
    KeyError: 6,
    ZeroDivisionError: 7,
}


def err_code(e: BaseException) -> int:
    for cls, c in ERR_CODE.items():
        if type(e) is cls:
            return c
    for cls, c in ERR_CODE.items():
        if isinstance(e, cls):
            return c
    return 8


# ------------------------------------------------------------------ builders
def build_eom(spec):
    if spec is None:
        return None
    beams = {"RED": RydbergBeam.RED, "BLUE": RydbergBeam.BLUE}
    return RydbergEOM(
        limiting_beam=beams[spec.get("limiting_beam", "RED")],
        max_limiting_amp=spec.get("max_limiting_amp", 30 * 2 * math.pi),
        intermediate_detuning=spec.get("intermediate_detuning", 700 * 2 * math.pi),
        controlled_beams=tuple(beams[b] for b in spec.get("controlled_beams", ["BLUE"])),
        mod_bandwidth=spec["mod_bandwidth"],
        custom_buffer_time=spec.get("custom_buffer_time"),
        multiple_beam_control=spec.get("multiple_beam_control", True),
        blue_shift_coeff=spec.get("blue_shift_coeff", 1.0),
        red_shift_coeff=spec.get("red_shift_coeff", 1.0),
    )


def build_channel(spec):
    cls = {"Rydberg": Rydberg, "Raman": Raman, "Microwave": Microwave}[spec["kind"]]
    kw = dict(
        clock_period=spec.get("clock_period", 1),
        min_duration=spec.get("min_duration", 1),
        max_duration=spec.get("max_duration", 10**8),
        min_avg_amp=spec.get("min_avg_amp", 0),
        mod_bandwidth=spec.get("mod_bandwidth"),
        custom_phase_jump_time=spec.get("custom_phase_jump_time"),
    )
    if spec.get("eom") is not None:
        kw["eom_config"] = build_eom(spec["eom"])
    if spec["addressing"] == "Global":
        return cls.Global(spec.get("max_abs_detuning"), spec.get("max_amp"), **kw)
    return cls.Local(
        spec.get("max_abs_detuning"),
        spec.get("max_amp"),
        min_retarget_interval=spec.get("min_retarget_interval", 0),
        fixed_retarget_t=spec.get("fixed_retarget_t", 0),
        max_targets=spec.get("max_targets"),
        **kw,
    )


def build_dmm(spec):
    return DMM(
        bottom_detuning=spec.get("bottom_detuning"),
        total_bottom_detuning=spec.get("total_bottom_detuning"),
        clock_period=spec.get("clock_period", 1),
        min_duration=spec.get("min_duration", 1),
        max_duration=spec.get("max_duration", 10**8),
        mod_bandwidth=spec.get("mod_bandwidth"),
        custom_phase_jump_time=spec.get("custom_phase_jump_time"),
    )


def build_device(spec):
    chans = [build_channel(c) for c in spec["channels"]]
    ids = [c["id"] for c in spec["channels"]]
    dmms = [build_dmm(d) for d in spec.get("dmms", [])]
    return VirtualDevice(
        name="VerifDevice",
        dimensions=2,
        rydberg_level=60,
        channel_ids=tuple(ids),
        channel_objects=tuple(chans),
        dmm_objects=tuple(dmms),
        max_sequence_duration=spec.get("max_sequence_duration"),
        reusable_channels=spec.get("reusable", False),
        supports_slm_mask=spec.get("slm", False),
        min_atom_distance=0,
        max_atom_num=None,
        max_radial_distance=None,
        interaction_coeff_xy=(3700.0 if any(c["kind"] == "Microwave" for c in spec["channels"]) else None),
    )


def build_register(spec):
    return Register({q: tuple(c) for q, c in zip(spec["ids"], spec["coords"])})


def build_wf(spec):
    k = spec["k"]
    if k == "const":
        return ConstantWaveform(spec["d"], spec["v"])
    if k == "ramp":
        return RampWaveform(spec["d"], spec["a"], spec["b"])
    if k == "blackman":
        return BlackmanWaveform(spec["d"], spec["area"])
    if k == "kaiser":
        return KaiserWaveform(spec["d"], spec["area"], spec.get("beta", 14.0))
    if k == "interp":
        return InterpolatedWaveform(spec["d"], spec["values"])
    if k == "custom":
        return CustomWaveform(spec["samples"])
    if k == "composite":
        return CompositeWaveform(*[build_wf(p) for p in spec["parts"]])
    raise ValueError(k)


def build_pulse(spec):
    if spec.get("via"):
        # the documented shorthand constructors give the same pulse as Pulse(...)
        a_const, d_const = spec["amp"]["k"] == "const", spec["det"]["k"] == "const"
        post = spec.get("post", 0.0)
        if a_const and d_const:
            return Pulse.ConstantPulse(spec["amp"]["d"], spec["amp"]["v"], spec["det"]["v"], spec["phase"], post)
        if a_const:
            return Pulse.ConstantAmplitude(spec["amp"]["v"], build_wf(spec["det"]), spec["phase"], post)
        if d_const:
            return Pulse.ConstantDetuning(build_wf(spec["amp"]), spec["det"]["v"], spec["phase"], post)
    return Pulse(
        build_wf(spec["amp"]),
        build_wf(spec["det"]),
        spec["phase"],
        spec.get("post", 0.0),
    )


# ------------------------------------------------------------------ coding
class Coder:
    """Maps names of the case to the integer codes used by the model."""

    def __init__(self, case):
        dev = case["device"]
        self.chid = {c["id"]: i for i, c in enumerate(dev["channels"])}
        self.dmmid = {f"dmm_{i}": 1000 + 100 * i for i in range(len(dev.get("dmms", [])))}
        self.qid = {q: i for i, q in enumerate(case["register"]["ids"])}
        self.names: dict[str, int] = {}

    def chan_id(self, cid) -> int:
        if cid in self.chid:
            return self.chid[cid]
        if cid in self.dmmid:
            return self.dmmid[cid]
        return 777

    def dmm_id(self, did) -> int:
        return self.dmmid.get(did, 1900)

    def name(self, n: str) -> int:
        if n.startswith("dmm_"):
            parts = n.split("_")
            try:
                k = int(parts[1])
                rep = int(parts[2]) if len(parts) > 2 else 0
                if len(parts) <= 3:
                    return 1000 + 100 * k + rep
            except (ValueError, IndexError):
                pass
            if n not in self.names:
                self.names[n] = 900 + len([v for v in self.names.values() if v >= 900])
            return self.names[n]
        if n not in self.names:
            self.names[n] = len([v for v in self.names.values() if v < 900])
        return self.names[n]

    def q(self, q) -> int:
        return self.qid.get(q, 500 + (hash(str(q)) % 97))

    def basis(self, b) -> int:
        return BASIS_CODE.get(b, 9)


def pulse_sv(p: Pulse):
    a = np.asarray(p.amplitude.samples.as_array(detach=True), dtype=float)
    d = np.asarray(p.detuning.samples.as_array(detach=True), dtype=float)
    return [
        int(p.duration),
        float(p.phase),
        float(p.post_phase_shift),
        bool(_ChannelSchedule.is_detuned_delay(p)),
        [float(a[0]), nanmax(a), float(d[0]), float(d[-1])],
    ]


def nanmax(x) -> float:
    x = np.asarray(x, dtype=float)
    x = x[~np.isnan(x)]
    return float(np.max(x)) if x.size else float("-inf")


def slot_sv(cd: Coder, s):
    tg = sorted(cd.q(q) for q in s.targets)
    if isinstance(s.type, Pulse):
        return [2, int(s.ti), int(s.tf), tg, pulse_sv(s.type)]
    return [0 if s.type == "target" else 1, int(s.ti), int(s.tf), tg]


def eom_sv(b):
    return [
        float(b.rabi_freq),
        float(b.detuning_on),
        float(b.detuning_off),
        int(b.ti),
        [] if b.tf is None else [int(b.tf)],
    ]


def flags_sv(cd, seq):
    meas = getattr(seq, "_measurement", None)
    return [
        bool(seq._in_xy),
        bool(seq._in_ising),
        cd.basis(meas) if meas is not None else -1,
        bool(seq._empty_sequence),
        len(seq._calls) - 1,
    ]


def snap_light(cd: Coder, seq: Sequence):
    chans = []
    for name, cs in seq._schedule.items():
        chans.append(
            [
                cd.name(name),
                cd.chan_id(cs.channel_id),
                len(cs.slots),
                [slot_sv(cd, cs.slots[-1])] if cs.slots else [],
                len(cs.eom_blocks),
                [eom_sv(cs.eom_blocks[-1])] if cs.eom_blocks else [],
            ]
        )
    refs = []
    qorder = list(seq._register.qubit_ids)
    for basis, d in seq._basis_ref.items():
        refs.append(
            [
                cd.basis(basis),
                [
                    [
                        cd.q(q),
                        float(d[q].phase.last_phase),
                        int(d[q].phase.last_time),
                        int(d[q].last_used),
                        len(d[q].phase._times),
                    ]
                    for q in qorder
                ],
            ]
        )
    return [chans, refs, flags_sv(cd, seq)]


def snap_full(cd: Coder, seq: Sequence):
    chans = []
    for name, cs in seq._schedule.items():
        chans.append(
            [
                cd.name(name),
                cd.chan_id(cs.channel_id),
                [slot_sv(cd, s) for s in cs.slots],
                [eom_sv(b) for b in cs.eom_blocks],
            ]
        )
    refs = []
    qorder = list(seq._register.qubit_ids)
    for basis, d in seq._basis_ref.items():
        refs.append(
            [
                cd.basis(basis),
                [
                    [
                        cd.q(q),
                        [int(t) for t in d[q].phase._times],
                        [float(p) for p in d[q].phase._phases],
                        int(d[q].last_used),
                    ]
                    for q in qorder
                ],
            ]
        )
    return [chans, refs, flags_sv(cd, seq)]


# ------------------------------------------------------------------ descriptors
def describe_pulse(seq: Sequence, p: Pulse, channel: str) -> dict:
    """Summary of a user pulse relative to the channel it is added to."""
    a = np.asarray(p.amplitude.samples.as_array(detach=True), dtype=float)
    d = np.asarray(p.detuning.samples.as_array(detach=True), dtype=float)
    dur = int(p.duration)
    ext = True
    adj = p
    ch_obj = seq.declared_channels.get(channel) if isinstance(channel, str) else None
    if ch_obj is not None:
        try:
            d2 = ch_obj.validate_duration(dur)
        except Exception:
            d2 = dur
        if d2 != dur:
            try:
                adj = Pulse(
                    p.amplitude.change_duration(d2),
                    p.detuning.change_duration(d2),
                    p.phase,
                    p.post_phase_shift,
                )
            except NotImplementedError:
                ext = False
            except Exception:
                ext = True  # the failure is of another kind; model it as such
    aa = np.asarray(adj.amplitude.samples.as_array(detach=True), dtype=float)
    da = np.asarray(adj.detuning.samples.as_array(detach=True), dtype=float)
    with warnings.catch_warnings():
        warnings.simplefilter("ignore")
        dmin = float(np.min(d))
        avg = float(np.average(a))
    return dict(
        dur=dur,
        ext=ext,
        phase=float(p.phase),
        post=float(p.post_phase_shift),
        amax=nanmax(a),
        dabsmax=nanmax(np.abs(d)),
        avg=avg,
        dmax=nanmax(d),
        dmin=dmin,
        dd=bool(_ChannelSchedule.is_detuned_delay(p)),
        sum=[float(aa[0]), nanmax(aa), float(da[0]), float(da[-1])],
    )


def fall_oracle(cd: Coder, seq: Sequence):
    out = []
    for name, cs in seq._schedule.items():
        ch = cs.channel_obj
        for s in cs.slots:
            if isinstance(s.type, Pulse):
                with warnings.catch_warnings():
                    warnings.simplefilter("ignore")
                    fs = int(s.type.fall_time(ch, in_eom_mode=False))
                    fe = int(s.type.fall_time(ch, in_eom_mode=True)) if ch.supports_eom() else 0
                out.append([cd.name(name), int(s.ti), fs, fe])
    return out


# ------------------------------------------------------------------ executing
def exec_op(cd: Coder, seq: Sequence, op: dict, maps: list, desc: dict):
    """Execute one op on the real sequence.  Returns (value_sv, descriptor);
    `desc` is filled in place before the call so it survives an exception."""
    k = op["op"]
    if k == "declare":
        seq.declare_channel(op["name"], op["channel_id"], initial_target=op.get("initial_target"))
        return None, desc
    if k == "target":
        seq.target(op["qubits"], op["channel"])
        return None, desc
    if k == "target_index":
        seq.target_index(op["qubits"], op["channel"])
        return None, desc
    if k == "delay":
        seq.delay(op["duration"], op["channel"], at_rest=op.get("at_rest", False))
        return None, desc
    if k in ("add", "estimate"):
        p = build_pulse(op["pulse"])
        desc["pulse"] = describe_pulse(seq, p, op["channel"])
        if k == "add":
            seq.add(p, op["channel"], PROTO[op.get("protocol", 0)])
            return None, desc
        r = seq.estimate_added_delay(p, op["channel"], PROTO[op.get("protocol", 0)])
        return int(r), desc
    if k == "add_dmm":
        wf = build_wf(op["wf"])
        p = Pulse.ConstantAmplitude(0, wf, 0)
        desc["pulse"] = describe_pulse(seq, p, op["channel"])
        seq.add_dmm_detuning(wf, op["channel"], PROTO[op.get("protocol", 1)])
        return None, desc
    if k == "align":
        seq.align(*op["channels"], at_rest=op.get("at_rest", True))
        return None, desc
    if k == "phase_shift":
        seq.phase_shift(op["phi"], *op.get("targets", []), basis=op.get("basis", "digital"))
        return None, desc
    if k == "phase_shift_index":
        seq.phase_shift_index(op["phi"], *op.get("targets", []), basis=op.get("basis", "digital"))
        return None, desc
    if k in ("enable_eom", "modify_eom"):
        # oracle: the detuning_off the EOM configuration selects
        det_off = float(op.get("opt_off", 0.0))
        ch_obj = seq.declared_channels.get(op["channel"])
        if ch_obj is not None and ch_obj.supports_eom():
            try:
                det_off = float(
                    ch_obj.eom_config.calculate_detuning_off(
                        op["amp_on"], op["det_on"], float(op.get("opt_off", 0.0))
                    )
                )
            except Exception:
                pass
        desc["det_off"] = det_off
        f = seq.enable_eom_mode if k == "enable_eom" else seq.modify_eom_setpoint
        f(
            op["channel"],
            op["amp_on"],
            op["det_on"],
            optimal_detuning_off=op.get("opt_off", 0.0),
            correct_phase_drift=op.get("correct", False),
        )
        return None, desc
    if k == "disable_eom":
        seq.disable_eom_mode(op["channel"], correct_phase_drift=op.get("correct", False))
        return None, desc
    if k == "add_eom":
        seq.add_eom_pulse(
            op["channel"],
            op["duration"],
            op["phase"],
            post_phase_shift=op.get("post", 0.0),
            protocol=PROTO[op.get("protocol", 0)],
            correct_phase_drift=op.get("correct", False),
        )
        return None, desc
    if k == "measure":
        seq.measure(op.get("basis", "ground-rydberg"))
        return None, desc
    if k == "config_detmap":
        seq.config_detuning_map(maps[op["map"]], op["dmm_id"])
        return None, desc
    if k == "config_slm":
        seq.config_slm_mask(op["qubits"], op["dmm_id"])
        return None, desc
    if k == "set_mag":
        seq.set_magnetic_field(op["bx"], op["by"], op["bz"])
        return None, desc
    if k == "q_duration":
        r = seq.get_duration(op.get("channel"), include_fall_time=op.get("fall", False))
        return int(r), desc
    if k == "q_phase_ref":
        r = seq.current_phase_ref(op["qubit"], op.get("basis", "digital"))
        return float(r), desc
    if k == "q_in_eom":
        return bool(seq.is_in_eom_mode(op["channel"])), desc
    if k == "q_available":
        return [cd.chan_id(i) for i in seq.available_channels], desc
    raise ValueError("unknown op " + k)


def run_case(case: dict, hook=None):
    """Returns dict(trace, oracle, descs, maps, error?).  `hook(i, op, seq,
    before_snapshot, outcome)` is called after every op (for property oracles)."""
    cd = Coder(case)
    with warnings.catch_warnings():
        warnings.simplefilter("ignore")
        dev = build_device(case["device"])
        reg = build_register(case["register"])
        seq = Sequence(reg, dev)
        maps = []
        for m in case.get("maps", []):
            maps.append(reg.define_detuning_map({q: w for q, w in zip(case["register"]["ids"], m)}))
        trace = []
        descs = []
        for i, op in enumerate(case["ops"]):
            desc = {}
            try:
                val, _ = exec_op(cd, seq, op, maps, desc)
                out = [0, val if val is not None else []]
            except Exception as e:  # noqa: BLE001
                out = [err_code(e)]
                out_exc = e
            else:
                out_exc = None
            descs.append(desc)
            trace.append([out, snap_light(cd, seq)])
            if hook is not None:
                hook(i, op, seq, out, out_exc)
        trace.append(snap_full(cd, seq))
        return dict(
            trace=trace,
            oracle=fall_oracle(cd, seq),
            descs=descs,
            maps=[[float(np.max(m.weights)), float(np.sum(m.weights))] for m in maps],
            coder=cd,
            seq=seq,
        )


