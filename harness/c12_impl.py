"""C12 - implementation runner (executes the code of the tree under
verification) and the property oracle: a direct executable reading of the
C12 statement in exact rational arithmetic, evaluated on the real outputs."""
from __future__ import annotations

import math
import warnings
from fractions import Fraction

import numpy as np

from harness.framework import Violation

TOL = Fraction(1, 10 ** 6)      # the documented precision of the distance check
BAND = Fraction(1, 10 ** 9)     # float decisions this close to a real boundary are not judged

PARAM_IDX = {"min_atom_distance": 0, "max_atom_num": 1, "max_radial_distance": 2,
             "max_sequence_duration": 3, "max_runs": 4, "min_layout_traps": 5, "max_layout_traps": 6}


# ---------------------------------------------------------------- building
def build_device(d: dict):
    from pulser.devices import Device, DigitalAnalogDevice, VirtualDevice
    from pulser.channels.dmm import DMM

    kw = dict(name="verif", dimensions=d["dimensions"], rydberg_level=d["rydberg_level"],
              min_atom_distance=d["min_atom_distance"], max_atom_num=d["max_atom_num"],
              max_radial_distance=d["max_radial_distance"], max_layout_filling=d["max_layout_filling"],
              optimal_layout_filling=d["optimal_layout_filling"], min_layout_traps=d["min_layout_traps"],
              max_layout_traps=d["max_layout_traps"])
    for k in ("max_sequence_duration", "max_runs", "supports_slm_mask"):
        if k in d:
            kw[k] = d[k]
    virt = d["cls"] == "VirtualDevice"
    if "n_dmm" in d:
        one = DMM() if virt else DigitalAnalogDevice.dmm_objects[0]
        kw["dmm_objects"] = tuple([one] * d["n_dmm"])
    elif virt:
        pass  # defaults: supports_slm_mask=True with one DMM
    return (VirtualDevice if virt else Device)(**kw)


def build_valid_device(case, V):
    """the device of a val/mc/auto case satisfies the documented constraints by
    construction of the generator: failing to construct it is a violation of the
    'valid parameter combinations construct' clause, not a harness failure"""
    try:
        return build_device(case["device"])
    except Exception as e:  # noqa: BLE001
        V.append(Violation("device:valid-params-rejected",
                           f"valid parameter combination raises {type(e).__name__}: {str(e)[:200]}", case))
        return None


def build_register(case, layout=None):
    import pulser

    cls = pulser.Register3D if case["dim"] == 3 else pulser.Register
    qubits = {i: np.array(c, dtype=float) for i, c in zip(case["ids"], case["coords"])}
    if layout is None:
        return cls(qubits)
    trap_ids = layout.get_traps_from_coordinates(*[np.array(c, dtype=float) for c in case["coords"]])
    return layout.define_register(*trap_ids, qubit_ids=case["ids"])


def pts_of(mapping) -> list[list[float]]:
    out = []
    for v in mapping.values():
        a = v.as_array() if hasattr(v, "as_array") else np.asarray(v)
        out.append([float(x) for x in a])
    return out


# ---------------------------------------------------------------- encoding
def enc_exc(e, atom_ids: dict, trap_ids: dict):
    """exception -> the list encoding of Model.DevGeo.sv_gerr"""
    from pulser.exceptions.base import PulserValueError

    T = type(e).__name__

    def idx(kind, name):
        m = atom_ids if kind == "atoms" else trap_ids
        return m.get(str(name), -1)

    if isinstance(e, TypeError):
        return [1]
    if T == "DimensionPositionsTooHighError":
        return [2, int(e.invalid)]
    if T == "AtomsNumberError":
        return [3, int(e.invalid)]
    if T == "DistanceError":
        k = 0 if e.kind == "atoms" else 1
        return [4, k, [[idx(e.kind, a), idx(e.kind, b)] for a, b in e.invalid]]
    if T == "RadiusError":
        k = 0 if e.kind == "atoms" else 1
        return [5, k, [idx(e.kind, a) for a in e.invalid]]
    if T == "DimensionTooHighError":
        return [6, int(e.invalid)]
    if T == "TrapsNumberTooLowError":
        return [7, int(e.invalid)]
    if T == "TrapsNumberTooHighError":
        return [8, int(e.invalid)]
    if T == "QubitsNumberError":
        return [9, int(e.invalid), int(e.max)]
    if type(e) is PulserValueError and e.__cause__ is not None and "incompatible" in str(e):
        return [10, enc_exc(e.__cause__, atom_ids, trap_ids)]
    return [99, sum(map(ord, T)) % 1000]


def enc_dev_exc(e):
    T = type(e).__name__
    msg = str(e)
    if T == "DimensionChoiceError":
        return [1]
    if isinstance(e, TypeError) and msg.startswith("Rydberg level"):
        return [2]
    if T == "RydbergLevelError":
        return [3]
    if isinstance(e, TypeError) and "can't be None" in msg:
        p = msg.split("'")[1]
        return [4, PARAM_IDX.get(p, -1)]
    if isinstance(e, TypeError) and "must be of type 'int'" in msg:
        p = msg.split(" ")[0]
        return [5, PARAM_IDX.get(p, -1)]
    if T == "ValueError" and "must be greater than" in msg and "'" in msg:
        p = msg.split("'")[1]
        return [6, PARAM_IDX.get(p, -1)]
    if T == "ValueError" and "maximum layout filling" in msg:
        return [7]
    if T == "OptimalLayoutFillingError":
        return [8]
    if T == "MaxNumberOfTrapsError":
        return [9]
    if T == "PulserValueError" and "a layout supports at most" in msg:
        return [10, int(msg.split("at most ")[1].split(" ")[0])]
    if T == "PulserValueError" and "One DMM" in msg:
        return [11]
    return [99, sum(map(ord, T)) % 1000]


# ---------------------------------------------------------------- exact geometry (oracle)
def fr(x: float) -> Fraction:
    return Fraction(x)


def cmp_sqrt(sq: Fraction, c: Fraction) -> int:
    """sign of sqrt(sq) - c for sq >= 0"""
    if c < 0:
        return 1
    a, b = sq, c * c
    return (a > b) - (a < b)


def tri_lt(sq: Fraction, c: Fraction):
    """is sqrt(sq) < c ?  True / False / None (within BAND of the boundary)"""
    if cmp_sqrt(sq, c - BAND) < 0:
        return True
    if cmp_sqrt(sq, c + BAND) >= 0:
        return False
    return None


def tri_gt_exactok(sq: Fraction, c: Fraction):
    """is sqrt(sq) > c ?  exact equality is decided (False); otherwise a BAND applies"""
    if sq == c * c and c >= 0:
        return False
    if cmp_sqrt(sq, c + BAND) > 0:
        return True
    if cmp_sqrt(sq, c - BAND) <= 0:
        return False
    return None


def sqd(p, q) -> Fraction:
    return sum(((fr(a) - fr(b)) ** 2 for a, b in zip(p, q)), Fraction(0))


def geometry_verdict(dev, pts, check_count: bool):
    """exact reading of the geometric clauses for a list of points.
    returns dict(count_bad, bad_pairs(set), maybe_pairs(set), far(set), maybe_far(set), nan)"""
    n = len(pts)
    res = dict(count_bad=False, bad_pairs=set(), maybe_pairs=set(), far=set(), maybe_far=set(), nan=False)
    if any(math.isnan(c) or math.isinf(c) for p in pts for c in p):
        res["nan"] = True
        return res
    if check_count and dev.max_atom_num is not None and n > dev.max_atom_num:
        res["count_bad"] = True
    md = fr(float(dev.min_atom_distance))
    for i in range(n):
        for j in range(i + 1, n):
            s = sqd(pts[i], pts[j])
            a = tri_lt(s, md - TOL)      # closer than the minimum, beyond the documented precision
            b = tri_lt(s, TOL)           # not distinct
            if a is True or b is True:
                res["bad_pairs"].add((i, j))
            elif a is None or b is None:
                res["maybe_pairs"].add((i, j))
    if dev.max_radial_distance is not None:
        R = Fraction(dev.max_radial_distance)
        for i in range(n):
            s = sum((fr(c) ** 2 for c in pts[i]), Fraction(0))
            t = tri_gt_exactok(s, R)
            if t is True:
                res["far"].add(i)
            elif t is None:
                res["maybe_far"].add(i)
    return res


def exact_cap(n_traps: int, fill: float):
    """floor(n_traps * fill) in exact arithmetic; None if within BAND of an integer boundary"""
    x = Fraction(n_traps) * fr(fill)
    k = math.floor(x)
    if x - k < BAND or (k + 1) - x < BAND:
        if x == k:
            return k
        return None
    return k


# ---------------------------------------------------------------- oracle for validation entry points
def judge_validation(case, dev, entry, pts, dim, traps, ldim, n_ids, outcome, exc, names, V):
    """Compare accept/reject, the clause blamed and the culprits with the exact reading."""

    def bad(sig, what):
        V.append(Violation(sig, what, case, dict(outcome=outcome)))

    code = outcome[0]
    inner = outcome
    wrapped = False
    if code == 10:
        wrapped = True
        inner = outcome[1]
    icode = inner[0]

    # --- which clauses are violated (exact reading)
    clauses = {}      # name -> True (violated) / None (undecided)
    atoms = None
    if entry in ("validate_register", "sequence"):
        if dim > dev.dimensions:
            clauses["dim"] = True
        atoms = geometry_verdict(dev, pts, True)
        if atoms["nan"]:
            clauses["nan"] = True
        if atoms["count_bad"]:
            clauses["count"] = True
        if atoms["bad_pairs"]:
            clauses["pairs"] = True
        elif atoms["maybe_pairs"]:
            clauses["pairs"] = None
        if atoms["far"]:
            clauses["radius"] = True
        elif atoms["maybe_far"]:
            clauses["radius"] = None
    tg = None
    if traps is not None and entry != "filling":
        if ldim > dev.dimensions:
            clauses["ldim"] = True
        nt = len(traps)
        if nt < dev.min_layout_traps:
            clauses["traps_low"] = True
        if dev.max_layout_traps is not None and nt > dev.max_layout_traps:
            clauses["traps_high"] = True
        tg = geometry_verdict(dev, traps, False)
        if tg["nan"]:
            clauses["tnan"] = True
        if tg["bad_pairs"]:
            clauses["tpairs"] = True
        elif tg["maybe_pairs"]:
            clauses["tpairs"] = None
        if tg["far"]:
            clauses["tradius"] = True
        elif tg["maybe_far"]:
            clauses["tradius"] = None
    if traps is not None and entry in ("validate_register", "sequence", "mappable", "filling"):
        nq = n_ids if entry == "mappable" else len(pts)
        cap = exact_cap(len(traps), float(dev.max_layout_filling))
        if cap is None:
            # undecided only if the two candidates straddle nq
            x = Fraction(len(traps)) * fr(float(dev.max_layout_filling))
            lo, hi = math.floor(x - BAND), math.floor(x + BAND)
            if nq > hi:
                clauses["filling"] = True
            elif nq > lo:
                clauses["filling"] = None
        elif nq > cap:
            clauses["filling"] = True

    violated = [k for k, v in clauses.items() if v is True]
    undecided = [k for k, v in clauses.items() if v is None]
    if "nan" in clauses:
        # a coordinate that is not a number is at no distance from anything
        if code == 0:
            bad("accepted:nan-coordinate", f"{entry}: a register with a NaN coordinate is accepted")
        return

    # --- accept / reject
    if code == 0:
        for k in violated:
            bad("accepted:" + k, f"{entry}: accepted although clause '{k}' is violated")
        return
    if code == 99:
        bad("unexpected-exception", f"{entry}: raised {type(exc).__name__}: {exc}")
        return
    CL = {2: ["dim"], 3: ["count"], 4: ["pairs", "tpairs"], 5: ["radius", "tradius"], 6: ["ldim"],
          7: ["traps_low"], 8: ["traps_high"], 9: ["filling"]}
    if icode == 1:
        bad("rejected:type-error", f"{entry}: TypeError on a well-formed input: {exc}")
        return
    blamed = CL.get(icode, [])
    from_layout = icode in (6, 7, 8)
    if icode in (4, 5):
        kind = inner[1]
        blamed = [blamed[0]] if kind == 0 else [blamed[1]]
        from_layout = kind == 1
        if (atoms if kind == 0 else tg) is None:
            bad("payload:kind", f"{entry}: error about kind {kind} which this entry point does not check")
            return
    if wrapped != (from_layout and entry in ("validate_register", "sequence")):
        bad("wrapping", f"{entry}: error code {icode} with wrapped={wrapped}")
    b = blamed[0] if blamed else "?"
    if b not in clauses:
        bad("rejected:fits:" + b, f"{entry}: rejected for clause '{b}' which holds exactly; "
            f"violated={violated} undecided={undecided}: {exc}")
        return
    # --- payload
    if icode == 4:
        g = atoms if inner[1] == 0 else tg
        rep = {tuple(p) for p in inner[2]}
        if len(rep) != len(inner[2]):
            bad("culprits:pairs:duplicated", f"{entry}: a pair is reported twice: {inner[2]}")
        if any(i < 0 or j < 0 or i >= j for i, j in rep):
            bad("culprits:pairs:unknown-id", f"{entry}: reported pairs {inner[2]} are not pairs of the register's ids in order")
        miss = g["bad_pairs"] - rep
        spur = rep - g["bad_pairs"] - g["maybe_pairs"]
        if miss:
            bad("culprits:pairs:missing", f"{entry}: violating pairs not reported: {sorted(miss)} (reported {sorted(rep)})")
        if spur:
            bad("culprits:pairs:spurious", f"{entry}: pairs reported that respect the distance: {sorted(spur)}")
        if list(map(tuple, inner[2])) != sorted(rep):
            bad("culprits:pairs:order", f"{entry}: pairs not in register order: {inner[2]}")
    if icode == 5:
        g = atoms if inner[1] == 0 else tg
        rep = set(inner[2])
        if len(rep) != len(inner[2]) or any(i < 0 for i in rep):
            bad("culprits:radius:unknown-id", f"{entry}: reported ids {inner[2]}")
        miss = g["far"] - rep
        spur = rep - g["far"] - g["maybe_far"]
        if miss:
            bad("culprits:radius:missing", f"{entry}: atoms beyond the radius not reported: {sorted(miss)}")
        if spur:
            bad("culprits:radius:spurious", f"{entry}: atoms reported that are within the radius: {sorted(spur)}")
    if icode == 3 and inner[1] != len(pts):
        bad("payload:atoms-number", f"{entry}: AtomsNumberError.invalid={inner[1]} for {len(pts)} atoms")
    if icode == 2 and inner[1] != dim:
        bad("payload:dimension", f"{entry}: invalid={inner[1]} for dimensionality {dim}")
    if icode in (7, 8) and inner[1] != len(traps):
        bad("payload:traps-number", f"{entry}: invalid={inner[1]} for {len(traps)} traps")
    if icode == 9:
        nq = n_ids if entry == "mappable" else len(pts)
        if inner[1] != nq:
            bad("payload:qubits-number", f"{entry}: invalid={inner[1]} for {nq} qubits")
    if getattr(exc, "device", dev) is not dev and getattr(getattr(exc, "__cause__", None), "device", dev) is not dev:
        bad("payload:device", f"{entry}: error does not name the device")


# ---------------------------------------------------------------- runners
def run_val(case):
    import pulser
    from pulser.register.mappable_reg import MappableRegister
    from pulser.register.register_layout import RegisterLayout

    V: list[Violation] = []
    run = dict(kind="val", entry=case["entry"], built=True)
    with warnings.catch_warnings():
        warnings.simplefilter("ignore")
        dev = build_valid_device(case, V)
        if dev is None:
            run.update(built=False, why="device", outcome=[97])
            return run, V
        entry = case["entry"]
        try:
            layout = RegisterLayout(np.array(case["layout"], dtype=float)) if case["layout"] is not None else None
            reg = build_register(case, layout)
        except Exception as e:  # noqa: BLE001  (the inputs themselves could not be built)
            run.update(built=False, why=type(e).__name__ + ": " + str(e)[:200], outcome=[97])
            return run, V
        pts = pts_of(reg.qubits)
        names = list(reg.qubit_ids)
        atom_ids = {str(n): i for i, n in enumerate(names)}
        traps = pts_of(layout.traps_dict) if layout is not None else None
        trap_ids = {str(i): i for i in range(len(traps))} if traps is not None else {}
        run.update(dim=int(reg.dimensionality), pts=pts, traps=traps,
                   ldim=(int(layout.dimensionality) if layout is not None else None),
                   n_ids=case.get("n_ids"), what=case.get("what"))
        exc = None
        try:
            if entry == "validate_register":
                dev.validate_register(reg)
            elif entry == "sequence":
                seq = pulser.Sequence(reg, dev)
                if seq.register is not reg:
                    V.append(Violation("sequence:register-not-kept", "Sequence does not keep the register", case))
            elif entry == "validate_layout":
                dev.validate_layout(layout)
            elif entry == "mappable":
                pulser.Sequence(MappableRegister(layout, *[f"m{i}" for i in range(case["n_ids"])]), dev)
            elif entry == "filling":
                dev.validate_layout_filling(reg)
            elif entry == "malformed":
                if case["what"] == "str_as_register":
                    dev.validate_register("not a register")
                elif case["what"] == "register_as_layout":
                    dev.validate_layout(reg)
                else:
                    dev.validate_register(layout if layout is not None else [1, 2])
            out = [0]
        except Exception as e:  # noqa: BLE001
            exc = e
            out = enc_exc(e, atom_ids, trap_ids)
        run["outcome"] = out
        if entry == "malformed":
            if out != [1]:
                V.append(Violation("malformed:not-type-error", f"{case['what']}: outcome {out}", case))
        elif entry == "filling" and traps is None:
            if out != [1]:
                V.append(Violation("filling:no-layout", f"validate_layout_filling without layout: {out}", case))
        else:
            judge_validation(case, dev, entry, pts, run["dim"], traps, run["ldim"], case.get("n_ids"),
                             out, exc, names, V)
    return run, V


def run_hist(case):
    """a history in one process: ONE layout / register object validated, step by
    step, against several devices that share their name and differ in one limit.
    Every step is judged on its own (exact geometry of that device and that
    layout): acceptance must not depend on what was validated before."""
    import pulser
    from pulser.register.mappable_reg import MappableRegister
    from pulser.register.register_layout import RegisterLayout

    V: list[Violation] = []
    run = dict(kind="hist", built=True, outcomes=[])
    with warnings.catch_warnings():
        warnings.simplefilter("ignore")
        devs = []
        for d in case["devices"]:
            dev = build_valid_device(dict(case, device=d), V)
            if dev is None:
                run.update(built=False, why="device")
                return run, V
            devs.append(dev)
        try:
            layout = RegisterLayout(np.array(case["layout"], dtype=float))
            reg = build_register(case, layout)
        except Exception as e:  # noqa: BLE001
            run.update(built=False, why=type(e).__name__ + ": " + str(e)[:200])
            return run, V
        pts = pts_of(reg.qubits)
        names = list(reg.qubit_ids)
        atom_ids = {str(n): i for i, n in enumerate(names)}
        traps = pts_of(layout.traps_dict)
        trap_ids = {str(i): i for i in range(len(traps))}
        run.update(dim=int(reg.dimensionality), pts=pts, traps=traps, ldim=int(layout.dimensionality))
        for k, st in enumerate(case["steps"]):
            dev = devs[st["dev"]]
            entry = st["entry"]
            exc = None
            try:
                if entry == "validate_register":
                    dev.validate_register(reg)
                elif entry == "sequence":
                    pulser.Sequence(reg, dev)
                elif entry == "validate_layout":
                    dev.validate_layout(layout)
                elif entry == "mappable":
                    pulser.Sequence(MappableRegister(layout, *[f"m{i}" for i in range(st["n_ids"])]), dev)
                else:
                    raise ValueError(entry)
                out = [0]
            except Exception as e:  # noqa: BLE001
                exc = e
                out = enc_exc(e, atom_ids, trap_ids)
            run["outcomes"].append(out)
            sub: list[Violation] = []
            judge_validation(case, dev, entry, pts, run["dim"], traps, run["ldim"], st.get("n_ids"),
                             out, exc, names, sub)
            for v in sub:
                v.signature = "history:" + v.signature
                v.what = f"step {k} (device #{st['dev']}, after {k} earlier validations of the same layout): " + v.what
                v.detail = dict(step=k, outcomes=list(run["outcomes"]))
            V.extend(sub)
    return run, V


def valid_params_exact(p: dict):
    """documented constraints on the parameters; True / False / None (float-boundary)"""
    virt = p["cls"] == "VirtualDevice"

    def is_int(v):
        return isinstance(v, int) and not isinstance(v, bool)

    if p["dimensions"] not in (2, 3):
        return False
    if not is_int(p["rydberg_level"]) or not (50 <= p["rydberg_level"] <= 100):
        return False
    md = p["min_atom_distance"]
    if md is None or (isinstance(md, float) and math.isnan(md)) or md < 0:
        return False
    for k in ("max_atom_num", "max_radial_distance", "max_sequence_duration", "max_runs", "min_layout_traps",
              "max_layout_traps"):
        v = p.get(k)
        optional = k in ("max_sequence_duration", "max_runs", "max_layout_traps") or (
            virt and k in ("max_atom_num", "max_radial_distance"))
        if v is None:
            if not optional:
                return False
            continue
        if not is_int(v) or v <= 0:
            return False
    f = p["max_layout_filling"]
    if math.isnan(f) or not (0.0 < f <= 1.0):
        return False
    o = p["optimal_layout_filling"]
    if o is not None and (math.isnan(o) or not (0.0 < o <= f)):
        return False
    if p["max_layout_traps"] is not None:
        if p["max_layout_traps"] < p["min_layout_traps"]:
            return False
        if p["max_atom_num"] is not None:
            cap = exact_cap(p["max_layout_traps"], f)
            if cap is None:
                x = Fraction(p["max_layout_traps"]) * fr(f)
                lo, hi = math.floor(x - BAND), math.floor(x + BAND)
                if p["max_atom_num"] > hi:
                    return False
                if p["max_atom_num"] > lo:
                    return None
            elif cap < p["max_atom_num"]:
                return False
    if p.get("supports_slm_mask") and p.get("n_dmm", 1) == 0:
        return False
    return True


def run_dev(case):
    V: list[Violation] = []
    p = case["params"]
    with warnings.catch_warnings():
        warnings.simplefilter("ignore")
        try:
            dev = build_device(p)
            out = [0]
        except Exception as e:  # noqa: BLE001
            out = enc_dev_exc(e)
            dev = None
            exc = e
    ok = valid_params_exact(p)
    if ok is True and out != [0]:
        V.append(Violation("device:valid-params-rejected", f"valid parameter combination raises {type(exc).__name__}: {exc}", case))
    if ok is False and out == [0]:
        V.append(Violation("device:invalid-params-constructed", "a parameter combination violating the documented constraints constructs", case))
    if out[0] == 99:
        V.append(Violation("device:unexpected-exception", f"{type(exc).__name__}: {exc}", case))
    if dev is not None:
        # the constructed object reports the parameters it was given
        for k in ("dimensions", "max_atom_num", "max_radial_distance", "min_layout_traps", "max_layout_traps",
                  "max_layout_filling", "optimal_layout_filling"):
            a, b = getattr(dev, k), p[k]
            if not (a == b or (isinstance(a, float) and isinstance(b, float) and math.isnan(a) and math.isnan(b))):
                V.append(Violation("device:param-not-kept", f"{k}: {a!r} != {b!r}", case))
    return dict(kind="dev", outcome=out, valid=ok), V


def run_mc(case):
    import pulser

    V: list[Violation] = []
    with warnings.catch_warnings():
        warnings.simplefilter("ignore")
        run = dict(kind="mc")
        dev = build_valid_device(case, V)
        if dev is None:
            run.update(outcome=[96], validate=[96], nodev=True)
            return run, V
        try:
            reg = pulser.Register.max_connectivity(case["n"], dev, spacing=case["spacing"])
        except NotImplementedError:
            run["outcome"] = [2]
            run["validate"] = [50]
            return run, V
        except ValueError as e:
            msg = str(e)
            site = 1 if "greater than or equal to 1" in msg else 2 if "maximum" in msg and "number of atoms" in msg else 3 if "Spacing" in msg else 9
            run["outcome"] = [1, site]
            run["validate"] = [50]
            return run, V
        pts = pts_of(reg.qubits)
        run["outcome"] = [0, [[float(c) for c in p] for p in pts]]
        run["pts"] = pts
        names = list(reg.qubit_ids)
        atom_ids = {str(n): i for i, n in enumerate(names)}
        if len(pts) != case["n"]:
            V.append(Violation("constructor:max_connectivity:wrong-size", f"{len(pts)} atoms for n={case['n']}", case))
        try:
            dev.validate_register(reg)
            run["validate"] = [0]
        except Exception as e:  # noqa: BLE001
            run["validate"] = enc_exc(e, atom_ids, {})
            V.append(Violation("constructor:max_connectivity:rejected:" + type(e).__name__,
                               f"Register.max_connectivity({case['n']}, device, spacing={case['spacing']}) "
                               f"is rejected by that device: {str(e)[:160]}", case))
    return run, V


def mesh_of(R: int) -> list[list[float]]:
    """the candidate mesh of generate_trap_coordinates (numpy numerics: an oracle input)"""
    lx = 2 * R
    side = np.linspace(0, lx, num=int(lx / 1.0)) - R
    x, y = np.meshgrid(side, side)
    inc = x ** 2 + y ** 2 <= R ** 2
    c = np.c_[x[inc].ravel(), y[inc].ravel()]
    return [[float(a), float(b)] for a, b in c]


def run_auto(case):
    import pulser
    from pulser.register._layout_gen import generate_trap_coordinates

    V: list[Violation] = []
    run = dict(kind="auto")
    d = case["device"]
    with warnings.catch_warnings():
        warnings.simplefilter("ignore")
        dev = build_valid_device(case, V)
        if dev is None:
            run.update(gen=[96], validate=[96], auto="nodev", nodev=True)
            return run, V
        reg = pulser.Register({i: np.array(c, dtype=float) for i, c in zip(case["ids"], case["coords"])})
        seeds = [[float(a) for a in p] for p in reg.sorted_coords]
        run["seeds"] = seeds
        run["mesh"] = mesh_of(d["max_radial_distance"])
        try:
            tc = generate_trap_coordinates(reg.sorted_coords, min_trap_dist=dev.min_atom_distance,
                                           max_radial_dist=dev.max_radial_distance,
                                           max_layout_filling=dev.max_layout_filling,
                                           optimal_layout_filling=dev.optimal_layout_filling,
                                           min_traps=dev.min_layout_traps, max_traps=dev.max_layout_traps)
            run["gen"] = [0, [[float(a) for a in p] for p in tc]]
        except RuntimeError as e:
            run["gen"] = [1, int(str(e).split("for ")[1].split(" ")[0])]
        except Exception as e:  # noqa: BLE001
            run["gen"] = [99, sum(map(ord, type(e).__name__)) % 1000]
        try:
            dev.validate_register(reg)
            input_ok = True
        except Exception:  # noqa: BLE001
            input_ok = False
        run["input_ok"] = input_ok
        try:
            reg2 = reg.with_automatic_layout(dev)
        except Exception as e:  # noqa: BLE001
            run["auto"] = type(e).__name__
            run["validate"] = [50]
            if input_ok and not isinstance(e, RuntimeError):
                V.append(Violation("constructor:with_automatic_layout:raises:" + type(e).__name__,
                                   f"valid register, with_automatic_layout raises {type(e).__name__}: {str(e)[:160]}", case))
            return run, V
        run["auto"] = "ok"
        pts = pts_of(reg2.qubits)
        traps = pts_of(reg2.layout.traps_dict)
        run.update(pts=pts, traps=traps)
        names = list(reg2.qubit_ids)
        if names != list(reg.qubit_ids) or not np.allclose(np.array(pts), np.array(pts_of(reg.qubits)), rtol=0, atol=1e-6):
            V.append(Violation("constructor:with_automatic_layout:register-changed",
                               "ids or coordinates of the replicated register differ", case))
        atom_ids = {str(n): i for i, n in enumerate(names)}
        trap_ids = {str(i): i for i in range(len(traps))}
        try:
            dev.validate_register(reg2)
            run["validate"] = [0]
        except Exception as e:  # noqa: BLE001
            run["validate"] = enc_exc(e, atom_ids, trap_ids)
            if input_ok:
                inner = e.__cause__ if e.__cause__ is not None else e
                cause = ""
                if type(inner).__name__ == "QubitsNumberError":
                    # which trap count was generated?  ceil(n / f) evaluated in doubles (the known
                    # double-rounding defect) or fewer traps than even that
                    fc = int(np.ceil(len(pts) / float(dev.max_layout_filling)))
                    cause = ":float-ceil" if len(traps) >= max(fc, dev.min_layout_traps) else ":too-few-traps"
                V.append(Violation("constructor:with_automatic_layout:rejected:" + type(inner).__name__ + cause,
                                   "a register accepted by the device, replicated by with_automatic_layout(device), "
                                   f"is rejected by that device: {str(e)[:200]} / {str(inner)[:120]}", case))
    return run, V


def run_case(case):
    k = case["kind"]
    if k == "val":
        return run_val(case)
    if k == "dev":
        return run_dev(case)
    if k == "mc":
        return run_mc(case)
    if k == "auto":
        return run_auto(case)
    if k == "hist":
        return run_hist(case)
    raise ValueError(k)
