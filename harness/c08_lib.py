"""C08 runtime: builds parametrized templates on the real Pulser, runs
`Sequence.build` for a list of assignments, constructs the same sequences
directly with independently evaluated values, and encodes what was observed
for the Coq model (Model/Param.v).

Case format (JSON):
  device, register, maps        as harness/seqgen.py
  mappable                      None | {"traps": [[x, y], ...], "declared": [ids]}
  vars                          [{"name", "dtype": "int"|"float", "size": n|None}]
  heap                          [node]  creation order; see `make_objects`
  ops                           template calls; numeric fields may be {"r": id}
  builds                        [{"env": [[name, value|[values]], ...], "qubits": [[id, trap], ...]|None}]
"""
from __future__ import annotations

import inspect
import math
import operator
import sys
import traceback
import warnings

import numpy as np

import pulser
from pulser import Pulse, Register, Sequence
from pulser.parametrized import Parametrized, ParamObj, Variable
from pulser.parametrized.variable import VariableItem
from pulser.register.register_layout import RegisterLayout
from pulser.register.weight_maps import DetuningMap
from pulser.waveforms import BlackmanWaveform, ConstantWaveform, RampWaveform, Waveform
import pulser.math as pm

from harness import seqimpl
from harness.seqimpl import PROTO, err_code

# ---------------------------------------------------------------- codes
CALLS = {
    "declare_channel": 1, "target": 2, "target_index": 3, "delay": 4, "add": 5,
    "align": 6, "phase_shift": 7, "phase_shift_index": 8, "measure": 9,
    "enable_eom_mode": 10, "add_eom_pulse": 11, "disable_eom_mode": 12,
    "modify_eom_setpoint": 13, "config_detuning_map": 14, "add_dmm_detuning": 15,
    "set_magnetic_field": 16, "config_slm_mask": 17,
}
UN = {0: "neg", 1: "abs", 2: "ceil", 3: "floor", 4: "rint", 5: "sqrt", 6: "exp",
      7: "log2", 8: "log", 9: "sin", 10: "cos", 11: "tan", 12: "tanh"}
BIN = {20: "add", 21: "sub", 22: "mul", 23: "truediv", 24: "pow", 25: "mod"}
NP_UN = {0: np.negative, 1: np.abs, 2: np.ceil, 3: np.floor, 4: np.round, 5: np.sqrt,
         6: np.exp, 7: np.log2, 8: np.log, 9: np.sin, 10: np.cos, 11: np.tan, 12: np.tanh}
PY_BIN = {20: operator.add, 21: operator.sub, 22: operator.mul, 23: operator.truediv,
          24: operator.pow, 25: operator.mod}
CLS_CONST, CLS_RAMP, CLS_BLACKMAN, CLS_PULSE, CLS_CAMP, CLS_CDET = 100, 101, 102, 110, 112, 113


def is_ref(x):
    return isinstance(x, dict) and "r" in x


class StrTable:
    """strings of a case -> integer codes; built by a deterministic scan of
    the case so that model emission and observation agree"""

    def __init__(self, case):
        self.t = {}
        for s in ["min-delay", "no-delay", "wait-for-all", "bogus-protocol",
                  "ground-rydberg", "digital", "XY"]:
            self.add(s)
        for c in case["device"]["channels"]:
            self.add(c["id"])
        for i in range(len(case["device"].get("dmms", []))):
            self.add(f"dmm_{i}")
            for k in range(1, 4):
                self.add(f"dmm_{i}_{k}")
        for q in case["register"]["ids"]:
            self.add(q)
        if case.get("mappable"):
            for q in case["mappable"]["declared"]:
                self.add(q)
        self._scan(case["ops"])

    def add(self, s):
        if s not in self.t:
            self.t[s] = len(self.t)

    def _scan(self, x):
        if isinstance(x, str):
            self.add(x)
        elif isinstance(x, dict):
            for k in sorted(x):
                if k not in ("op", "k"):
                    self._scan(x[k])
        elif isinstance(x, (list, tuple)):
            for y in x:
                self._scan(y)

    def code(self, s):
        return self.t.get(s, 9999)


# ---------------------------------------------------------------- value encoding
# tagged python form of Model/Param.v [value]:
#   ("N", int|float)  ("A", [int|float...])  ("S", code)  ("O", cls, [values])
class Enc:
    def __init__(self, strs: StrTable, objid: dict, lit_index: dict, maps: list):
        self.strs = strs
        self.objid = objid  # id(python Parametrized) -> heap id
        self.lit_index = lit_index  # id(literal opaque waveform) -> index
        self.maps = maps

    def num(self, x):
        if isinstance(x, (bool, np.bool_)):
            return int(x)
        if isinstance(x, (int, np.integer)):
            return int(x)
        return seqimpl_F(float(x))

    def arr(self, a: np.ndarray):
        if a.ndim == 0:
            return ("N", self.num(a[()]))
        if a.ndim == 1:
            return ("A", [self.num(v) for v in a])
        return ("S", 9998)

    def wf(self, w):
        if type(w) is ConstantWaveform:
            return ("O", CLS_CONST, [("N", int(w._duration)), ("N", seqimpl_F(float(w._value)))])
        if type(w) is RampWaveform:
            return ("O", CLS_RAMP, [("N", int(w._duration)), ("N", seqimpl_F(float(w._start))),
                                    ("N", seqimpl_F(float(w._stop)))])
        if type(w) is BlackmanWaveform:
            return ("O", CLS_BLACKMAN, [("N", int(w._duration)), ("N", seqimpl_F(float(w._area)))])
        idx = self.lit_index.get(id(w), 999)
        with warnings.catch_warnings():
            warnings.simplefilter("ignore")
            s = np.asarray(w.samples.as_array(detach=True), dtype=float)
        return ("O", 150, [("S", idx), ("N", int(w.duration)), ("N", int(bool(np.any(s < 0))))])

    def value(self, x):
        if x is None:
            return ("S", -1)
        if isinstance(x, Parametrized):
            return ("O", 91, [("S", self.objid.get(id(x), 9997))])
        if isinstance(x, str):
            return ("S", self.strs.code(x))
        if isinstance(x, (bool, np.bool_, int, np.integer, float, np.floating)):
            return ("N", self.num(x))
        if isinstance(x, pm.AbstractArray):
            return self.arr(np.asarray(x._array))
        if isinstance(x, np.ndarray):
            return self.arr(x)
        if isinstance(x, Pulse):
            ph = np.asarray(x.phase._array if isinstance(x.phase, pm.AbstractArray) else x.phase, dtype=float)
            return ("O", CLS_PULSE, [self.wf(x.amplitude), self.wf(x.detuning),
                                     self.arr(ph), ("N", seqimpl_F(float(x.post_phase_shift)))])
        if isinstance(x, Waveform):
            return self.wf(x)
        if isinstance(x, DetuningMap):
            for i, m in enumerate(self.maps):
                if m is x:
                    return ("S", 2000 + i)
            return ("S", 2999)
        if isinstance(x, (list, tuple)):
            return ("O", 90, [self.value(y) for y in x])
        if isinstance(x, (set, frozenset)):
            return ("O", 90, sorted((self.value(y) for y in x), key=repr))
        return ("S", 9996)


class seqimpl_F(float):
    """float that must be encoded as NF even when integral"""


# canonical positional order of the arguments of every stored call
def canon_args(name, args, kwargs):
    meth = getattr(Sequence, name)
    sig = inspect.signature(meth)
    ba = sig.bind(None, *args, **kwargs)
    ba.apply_defaults()
    a = dict(ba.arguments)
    a.pop("self", None)
    if name == "declare_channel":
        return [a["name"], a["channel_id"], a["initial_target"]]
    if name in ("target", "target_index"):
        return [a["qubits"], a["channel"]]
    if name == "delay":
        return [a["duration"], a["channel"], a["at_rest"]]
    if name == "add":
        return [a["pulse"], a["channel"], a["protocol"]]
    if name == "align":
        return [a["at_rest"]] + list(a["channels"])
    if name in ("phase_shift", "phase_shift_index"):
        return [a["phi"], a["basis"]] + list(a["specific_targets"])
    if name == "measure":
        return [a["basis"]]
    if name in ("enable_eom_mode", "modify_eom_setpoint"):
        return [a["channel"], a["amp_on"], a["detuning_on"], a["optimal_detuning_off"], a["correct_phase_drift"]]
    if name == "add_eom_pulse":
        return [a["channel"], a["duration"], a["phase"], a["post_phase_shift"], a["protocol"], a["correct_phase_drift"]]
    if name == "disable_eom_mode":
        return [a["channel"], a["correct_phase_drift"]]
    if name == "config_detuning_map":
        return [a["detuning_map"], a["dmm_id"]]
    if name == "add_dmm_detuning":
        return [a["waveform"], a["dmm_name"], a["protocol"]]
    if name == "set_magnetic_field":
        return [a["bx"], a["by"], a["bz"]]
    return list(a.values())


# ---------------------------------------------------------------- objects of a case
class World:
    """the python objects of one case: device, register, template sequence,
    Parametrized objects (heap), literal pulses / waveforms"""

    def __init__(self, case):
        self.case = case
        self.strs = StrTable(case)
        with warnings.catch_warnings():
            warnings.simplefilter("ignore")
            self.dev = seqimpl.build_device(case["device"])
            mp = case.get("mappable")
            if mp:
                self.layout = RegisterLayout([tuple(c) for c in mp["traps"]])
                self.reg = self.layout.make_mappable_register(len(mp["declared"]))
                # make_mappable_register names qubits q0..; we need our ids
                from pulser.register.mappable_reg import MappableRegister

                self.reg = MappableRegister(self.layout, *mp["declared"])
                self.maps = [
                    # (a map on a single trap cannot be defined through a layout)
                    self.reg.define_detuning_map({j: w for j, w in enumerate(m if len(m) > 1 else list(m) + [0.5])})
                    for m in case.get("maps", [])
                ]
            else:
                self.layout = None
                self.reg = seqimpl.build_register(case["register"])
                self.maps = [
                    self.reg.define_detuning_map({q: w for q, w in zip(case["register"]["ids"], m)})
                    for m in case.get("maps", [])
                ]
        self.lits = {}  # key -> literal object
        self.lit_index = {}
        self.created: list = []
        world = self

        class RecSeq(Sequence):
            def __init__(self, *a, **k):
                self._received = []
                self._rec_depth = 0
                super().__init__(*a, **k)
                world.created.append(self)

        def wrap(name):
            orig = getattr(Sequence, name)

            def f(self, *a, **k):
                if self._rec_depth == 0:
                    self._received.append((name, a, k))
                self._rec_depth += 1
                try:
                    return orig(self, *a, **k)
                finally:
                    self._rec_depth -= 1

            f.__name__ = name
            return f

        for _n in CALLS:
            if hasattr(Sequence, _n):
                setattr(RecSeq, _n, wrap(_n))

        self.RecSeq = RecSeq
        with warnings.catch_warnings():
            warnings.simplefilter("ignore")
            self.seq = RecSeq(self.reg, self.dev)
            self.foreign = Sequence(self.reg, self.dev)
        self.objs: dict[int, object] = {}
        self.objid: dict[int, int] = {}
        self.vars_py: dict[str, Variable] = {}
        self.make_objects()
        self.enc = Enc(self.strs, self.objid, self.lit_index, self.maps)

    # literal waveform / pulse objects, one per place of use
    def lit(self, key, spec, kind):
        if key not in self.lits:
            with warnings.catch_warnings():
                warnings.simplefilter("ignore")
                obj = seqimpl.build_wf(spec) if kind == "wf" else seqimpl.build_pulse(spec)
            self.lits[key] = obj
            for w in ([obj] if kind == "wf" else [obj.amplitude, obj.detuning]):
                if type(w) not in (ConstantWaveform, RampWaveform, BlackmanWaveform):
                    self.lit_index.setdefault(id(w), len(self.lit_index))
        return self.lits[key]

    def arg_obj(self, nid, pos, a):
        if is_ref(a):
            return self.objs[a["r"]]
        if "i" in a:
            return int(a["i"])
        if "f" in a:
            return float(a["f"])
        if "wf" in a:
            return self.lit(("h", nid, pos), a["wf"], "wf")
        if "list" in a:
            return [self.arg_obj(nid, (pos, j), b) for j, b in enumerate(a["list"])]
        raise ValueError(a)

    def reg_obj(self, nid, obj):
        self.objs[nid] = obj
        self.objid[id(obj)] = nid

    def make_objects(self):
        case = self.case
        declared = {}
        with warnings.catch_warnings():
            warnings.simplefilter("ignore")
            for nid, n in enumerate(case["heap"]):
                k = n["k"]
                if n.get("hidden"):
                    continue  # created by the sugar of a later node
                if k == "var":
                    vd = next(v for v in case["vars"] if v["name"] == n["name"])
                    owner = self.foreign if vd.get("foreign") else self.seq
                    v = owner.declare_variable(vd["name"], size=vd["size"], dtype=int if vd["dtype"] == "int" else float)
                    declared[vd["name"]] = v
                    self.reg_obj(nid, v)
                elif k == "item":
                    vd = next(v for v in case["vars"] if v["name"] == n["var"])
                    if n.get("scalar"):
                        owner = self.foreign if vd.get("foreign") else self.seq
                        it = owner.declare_variable(vd["name"], dtype=int if vd["dtype"] == "int" else float)
                        declared[vd["name"]] = it.var
                        self.reg_obj(nid, it)
                    else:
                        key = n["key"]
                        if n.get("slice") is not None:
                            key = slice(*n["slice"])
                        self.reg_obj(nid, declared[n["var"]][key])
                else:
                    self.reg_obj(nid, self.make_op(nid, n))
                    # register the objects the sugar created
                    sg = n.get("sugar")
                    o = self.objs[nid]
                    if sg == "round":
                        r = o.args[0]
                        self.reg_obj(nid - 1, r)
                        self.reg_obj(nid - 2, r.args[0])
                    elif sg == "floordiv":
                        self.reg_obj(nid - 1, o.args[0])
                    elif sg == "cpulse":
                        ia, idt = n["hidden_ids"]
                        if ia is not None:
                            self.reg_obj(ia, o.args[0])
                        if idt is not None:
                            self.reg_obj(idt, o.args[1])
        self.vars_py = declared

    def make_op(self, nid, n):
        cls = n["cls"]
        sg = n.get("sugar")
        if sg == "round":
            # model nodes: nid-2 = x * 10**d, nid-1 = rint, nid = / 10**d
            src = self.objs[n["src"]]
            return round(src, n["digits"])
        if sg == "floordiv":
            x, y = [self.arg_obj(nid, i, a) for i, a in enumerate(n["src_args"])]
            return x // y
        if sg == "cpulse":
            d, a, det, ph, post = [self.arg_obj(nid, i, a) for i, a in enumerate(n["src_args"])]
            return Pulse.ConstantPulse(d, a, det, ph, post)
        A = [self.arg_obj(nid, i, a) for i, a in enumerate(n["args"])]
        if cls < 20:
            x = A[0]
            if cls == 0:
                return -x
            if cls == 1:
                return abs(x)
            if cls == 2:
                return math.ceil(x)
            if cls == 3:
                return math.floor(x)
            if cls == 4:
                return x.rint()
            return NP_UN[cls](x)
        if cls < 100:
            return PY_BIN[cls](A[0], A[1])
        if cls == CLS_CONST:
            return ConstantWaveform(A[0], A[1])
        if cls == CLS_RAMP:
            return RampWaveform(A[0], A[1], A[2])
        if cls == CLS_BLACKMAN:
            return BlackmanWaveform(A[0], A[1])
        if cls == CLS_PULSE:
            # keyword argument: exercises the kwargs branch of ParamObj.build
            return Pulse(A[0], A[1], A[2], post_phase_shift=A[3])
        if cls == CLS_CAMP:
            return Pulse.ConstantAmplitude(A[0], A[1], phase=A[2], post_phase_shift=A[3])
        if cls == CLS_CDET:
            return Pulse.ConstantDetuning(A[0], A[1], A[2], A[3])
        raise ValueError(cls)

    # ------------------------------------------------------------ template calls
    def R(self, x):
        return self.objs[x["r"]] if is_ref(x) else x

    def op_pulse(self, i, op, evalr=None):
        p = op["pulse"]
        if is_ref(p):
            return evalr(p["r"]) if evalr else self.objs[p["r"]]
        return self.lit(("op", i, "pulse"), p, "pulse")

    def op_wf(self, i, op, evalr=None):
        w = op["wf"]
        if is_ref(w):
            return evalr(w["r"]) if evalr else self.objs[w["r"]]
        return self.lit(("op", i, "wf"), w, "wf")

    def exec_op(self, seq, i, op, evalr=None, strict_index=False):
        """issue call #i on `seq`; with `evalr` (heap id -> python value) every
        Parametrized argument is replaced by its evaluated value"""

        def V(x):
            if is_ref(x):
                return evalr(x["r"]) if evalr else self.objs[x["r"]]
            if isinstance(x, list):
                return [V(y) for y in x]
            return x

        k = op["op"]
        if k == "declare":
            seq.declare_channel(op["name"], op["channel_id"], initial_target=V(op.get("initial_target")))
        elif k == "target":
            seq.target(V(op["qubits"]), op["channel"])
        elif k == "target_index":
            if evalr:
                # the reference resolves indices itself, against the declared order
                seq.target(by_index(seq, V(op["qubits"]), strict_index), op["channel"])
            else:
                seq.target_index(V(op["qubits"]), op["channel"])
        elif k == "delay":
            seq.delay(V(op["duration"]), op["channel"], at_rest=op.get("at_rest", False))
        elif k == "add":
            seq.add(self.op_pulse(i, op, evalr), op["channel"], PROTO[op.get("protocol", 0)])
        elif k == "add_dmm":
            seq.add_dmm_detuning(self.op_wf(i, op, evalr), op["channel"], PROTO[op.get("protocol", 1)])
        elif k == "align":
            seq.align(*op["channels"], at_rest=op.get("at_rest", True))
        elif k == "phase_shift":
            seq.phase_shift(V(op["phi"]), *V(op.get("targets", [])), basis=op.get("basis", "digital"))
        elif k == "phase_shift_index":
            if evalr:
                seq.phase_shift(V(op["phi"]), *by_index(seq, V(op.get("targets", [])), strict_index), basis=op.get("basis", "digital"))
            else:
                seq.phase_shift_index(V(op["phi"]), *V(op.get("targets", [])), basis=op.get("basis", "digital"))
        elif k in ("enable_eom", "modify_eom"):
            f = seq.enable_eom_mode if k == "enable_eom" else seq.modify_eom_setpoint
            f(op["channel"], V(op["amp_on"]), V(op["det_on"]),
              optimal_detuning_off=V(op.get("opt_off", 0.0)),
              correct_phase_drift=op.get("correct", False))
        elif k == "disable_eom":
            seq.disable_eom_mode(op["channel"], correct_phase_drift=op.get("correct", False))
        elif k == "add_eom":
            seq.add_eom_pulse(op["channel"], V(op["duration"]), V(op["phase"]),
                              post_phase_shift=V(op.get("post", 0.0)),
                              protocol=PROTO[op.get("protocol", 0)],
                              correct_phase_drift=op.get("correct", False))
        elif k == "measure":
            seq.measure(op.get("basis", "ground-rydberg"))
        elif k == "config_detmap":
            seq.config_detuning_map(self.maps[op["map"]], op["dmm_id"])
        else:
            raise ValueError("unknown op " + k)

    # ------------------------------------------------------------ independent evaluation
    def evaluator(self, env: dict, otable: dict):
        """heap id -> value under the assignment, computed with plain numpy /
        the public constructors, never through ParamObj / Variable.build.
        Records the transcendental applications in `otable`."""
        case = self.case
        memo = {}

        def var_value(name):
            vd = next(v for v in case["vars"] if v["name"] == name)
            raw = env[name]
            a = np.asarray(raw, dtype=int if vd["dtype"] == "int" else float)
            if a.ndim == 0:
                a = a[None]
            size = vd["size"] if vd["size"] is not None else 1
            if a.size != size:
                raise ValueError("size")
            return a

        def arg(nid, pos, a):
            if is_ref(a):
                return ev(a["r"])
            if "i" in a:
                return int(a["i"])
            if "f" in a:
                return float(a["f"])
            if "wf" in a:
                return self.lit(("h", nid, pos), a["wf"], "wf")
            if "list" in a:
                return [arg(nid, (pos, j), b) for j, b in enumerate(a["list"])]
            raise ValueError(a)

        def scal(x):
            # what a user would type: a python number
            if isinstance(x, np.ndarray) and x.ndim == 0:
                return x.item()
            if isinstance(x, np.generic):
                return x.item()
            return x

        def ev(nid):
            if nid in memo:
                return memo[nid]
            n = case["heap"][nid]
            k = n["k"]
            if k == "var":
                r = var_value(n["name"])
            elif k == "item":
                a = var_value(n["var"])
                key = n["key"]
                r = np.asarray(a[key])
            elif n.get("sugar") == "round":
                # the reference for round(expr, n) is numpy's / Python's round of
                # the value (half to even), not the expression Pulser expands it to
                with warnings.catch_warnings():
                    warnings.simplefilter("ignore")
                    src = np.asarray(ev(n["src"]))
                    r = np.asarray(np.round(src.astype(float), n["digits"]))
                    if r.ndim == 0 and n["digits"] == 0 and np.isfinite(r):
                        assert float(r) == float(round(float(src)))  # Python agrees on ties
            else:
                cls = n["cls"]
                A = [arg(nid, i, a) for i, a in enumerate(n["args"])]
                with warnings.catch_warnings():
                    warnings.simplefilter("ignore")
                    if cls < 20:
                        x = np.asarray(A[0])
                        r = np.asarray(NP_UN[cls](x))
                        if 6 <= cls <= 12:
                            for xi, ri in zip(np.atleast_1d(x).astype(float), np.atleast_1d(r).astype(float)):
                                otable[(cls, float(xi).hex())] = float(ri)
                    elif cls < 100:
                        x, y = np.asarray(A[0]), np.asarray(A[1])
                        r = np.asarray(PY_BIN[cls](x, y))
                        if cls == 24 and r.dtype.kind == "f":
                            xb, yb = np.broadcast_arrays(x.astype(float), y.astype(float))
                            for xi, yi, ri in zip(np.atleast_1d(xb), np.atleast_1d(yb), np.atleast_1d(r)):
                                otable[("pow", float(xi).hex(), float(yi).hex())] = float(ri)
                    elif cls == CLS_CONST:
                        r = ConstantWaveform(scal(A[0]), scal(A[1]))
                    elif cls == CLS_RAMP:
                        r = RampWaveform(scal(A[0]), scal(A[1]), scal(A[2]))
                    elif cls == CLS_BLACKMAN:
                        r = BlackmanWaveform(scal(A[0]), scal(A[1]))
                    elif cls == CLS_PULSE:
                        r = Pulse(A[0], A[1], scal(A[2]), scal(A[3]))
                    elif cls == CLS_CAMP:
                        r = Pulse.ConstantAmplitude(scal(A[0]), A[1], scal(A[2]), scal(A[3]))
                    elif cls == CLS_CDET:
                        r = Pulse.ConstantDetuning(A[0], scal(A[1]), scal(A[2]), scal(A[3]))
                    else:
                        raise ValueError(cls)
            memo[nid] = r
            return r

        def user(nid):
            v = ev(nid)
            if isinstance(v, np.ndarray):
                return v.item() if v.ndim == 0 else [x.item() for x in v]
            return v

        return ev, user


def by_index(seq, idx, strict=False):
    """qubit ids denoted by indices: position in the register's (declared) order"""
    ids = list(seq.register.qubit_ids)
    single = not isinstance(idx, (list, tuple))
    out = []
    for i in ([idx] if single else idx):
        if isinstance(i, float) and not float(i).is_integer():
            raise IndexError("not an index")
        if strict and int(i) < 0:
            raise IndexError("negative index")
        out.append(ids[int(i)])
    return out


def classify_build_failure(exc) -> str:
    """where inside Sequence.build the exception came from"""
    tb = traceback.extract_tb(exc.__traceback__)
    idx = None
    for i, fr in enumerate(tb):
        if fr.name == "build" and fr.filename.endswith("sequence/sequence.py"):
            idx = i
    if idx is None:
        return "outside"
    if idx + 1 >= len(tb):
        return "build"  # raised by build itself (qubits / missing variables)
    line = tb[idx].line or ""
    nxt = tb[idx + 1]
    if "_cross_check_vars" in line:
        return "build"
    if "temp_seq" in line:
        return "replay"
    if "_assign" in line:
        return "assign"
    if "_set_register" in line:
        return "setreg"
    if "build_register" in line:
        return "register"
    if ".build()" in line or nxt.filename.endswith("parametrized/paramobj.py") or (
        nxt.filename.endswith("parametrized/variable.py") and nxt.name == "build"
    ):
        return "args"
    return "call"
