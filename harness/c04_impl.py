"""C04 - implementation side: builds sequences from neutral cases through the
public API of the Pulser under verification, serialises / deserialises them
(abstract representation and legacy JSON), evaluates the property oracle and
presents the objects involved as terms of Model/AbsRepr.v."""
from __future__ import annotations

import contextlib
import functools
import inspect
import json
import math
import warnings

import numpy as np

import pulser
from pulser import Pulse, Register, Register3D, Sequence
from pulser.devices import AnalogDevice, DigitalAnalogDevice, MockDevice
from pulser.parametrized import ParamObj, Variable
from pulser.parametrized.variable import VariableItem
from pulser.register.mappable_reg import MappableRegister
from pulser.register.register_layout import RegisterLayout
from pulser.register.special_layouts import SquareLatticeLayout, TriangularLatticeLayout
from pulser.waveforms import (
    BlackmanWaveform,
    CompositeWaveform,
    ConstantWaveform,
    CustomWaveform,
    InterpolatedWaveform,
    KaiserWaveform,
    RampWaveform,
    Waveform,
)

from harness import seqimpl
from harness.common import Infra, fhex

BUILTIN = {"DigitalAnalogDevice": DigitalAnalogDevice, "AnalogDevice": AnalogDevice, "MockDevice": MockDevice}


# ------------------------------------------------------------------ building
def build_device(spec):
    if spec["kind"] == "builtin":
        return BUILTIN[spec["name"]]
    return seqimpl.build_device(spec["spec"])


def build_layout(spec):
    if spec is None:
        return None
    if spec["k"] == "square":
        return SquareLatticeLayout(spec["rows"], spec["cols"], spec["spacing"])
    if spec["k"] == "tri":
        return TriangularLatticeLayout(spec["n"], spec["spacing"])
    return RegisterLayout(spec["coords"], slug=spec.get("slug"))


def build_register(spec):
    lay = build_layout(spec.get("layout"))
    if spec["kind"] == "mappable":
        return MappableRegister(lay, *spec["ids"])
    if lay is not None:
        return lay.define_register(*spec["traps"], qubit_ids=spec["ids"])
    if spec["kind"] == "3d":
        return Register3D({q: tuple(c) for q, c in zip(spec["ids"], spec["coords"])})
    return Register({q: tuple(c) for q, c in zip(spec["ids"], spec["coords"])})


UN = {
    "neg": lambda x: -x,
    "abs": abs,
    "ceil": math.ceil,
    "floor": math.floor,
    "sqrt": lambda x: x.sqrt(),
    "exp": lambda x: x.exp(),
    "log2": lambda x: x.log2(),
    "log": lambda x: x.log(),
    "sin": lambda x: x.sin(),
    "cos": lambda x: x.cos(),
    "tan": lambda x: x.tan(),
    "tanh": lambda x: x.tanh(),
    "round": round,
    "np.sqrt": np.sqrt,
    "np.ceil": np.ceil,
    "np.tanh": np.tanh,
}
BIN = {
    "add": lambda a, b: a + b,
    "sub": lambda a, b: a - b,
    "mul": lambda a, b: a * b,
    "truediv": lambda a, b: a / b,
    "pow": lambda a, b: a**b,
    "mod": lambda a, b: a % b,
    "floordiv": lambda a, b: a // b,
}


def ev(x, env):
    """case value -> Python object (a literal or a Parametrized)"""
    if isinstance(x, dict):
        if "var" in x:
            return env[x["var"]]
        if "item" in x:
            name, key = x["item"]
            if isinstance(key, dict):
                key = slice(*key["slice"])
            return env[name][key]
        if "un" in x:
            op, a = x["un"]
            return UN[op](ev(a, env))
        if "bin" in x:
            op, a, b = x["bin"]
            return BIN[op](ev(a, env), ev(b, env))
        if "tuple" in x:
            return tuple(ev(y, env) for y in x["tuple"])
        if "set" in x:
            return set(x["set"])
        if "nparray" in x:
            return np.array(x["nparray"])
        raise ValueError(f"bad value {x}")
    if isinstance(x, list):
        return [ev(y, env) for y in x]
    return x


_CONC = None  # set by the generator: builds parametrized values (shadow sequence)


def E(x, env):
    v = ev(x, env)
    return _CONC(v) if _CONC is not None else v


def call_styled(fn, names, values, optional, style):
    """call fn with required `values` (bound to `names`) and `optional`
    [(name, value)] (already filtered: only those to pass) in a given style"""
    allv = list(zip(names, values)) + list(optional)
    if style == "kw":
        return fn(**dict(allv))
    if style == "pos":
        return fn(*[v for _, v in allv])
    # mix: required positional, optional by keyword
    return fn(*values, **dict(optional))


def build_wf(spec, env):
    k = spec["k"]
    st = spec.get("style", "pos")
    if k == "const":
        return call_styled(ConstantWaveform, ["duration", "value"], [E(spec["d"], env), E(spec["v"], env)], [], st)
    if k == "ramp":
        return call_styled(RampWaveform, ["duration", "start", "stop"], [E(spec[x], env) for x in ("d", "a", "b")], [], st)
    if k == "blackman":
        return call_styled(BlackmanWaveform, ["duration", "area"], [E(spec["d"], env), E(spec["area"], env)], [], st)
    if k == "blackman_max":
        return call_styled(BlackmanWaveform.from_max_val, ["max_val", "area"], [E(spec["mx"], env), E(spec["area"], env)], [], st)
    if k == "kaiser":
        opt = [("beta", E(spec["beta"], env))] if spec.get("beta") is not None else []
        return call_styled(KaiserWaveform, ["duration", "area"], [E(spec["d"], env), E(spec["area"], env)], opt, st)
    if k == "kaiser_max":
        opt = [("beta", E(spec["beta"], env))] if spec.get("beta") is not None else []
        return call_styled(KaiserWaveform.from_max_val, ["max_val", "area"], [E(spec["mx"], env), E(spec["area"], env)], opt, st)
    if k == "interp":
        opt = [("times", E(spec["times"], env))] if spec.get("times") is not None else []
        extra = {}
        if spec.get("interp") is not None:
            extra["interpolator"] = spec["interp"]
        extra.update(spec.get("ikw") or {})
        if extra:
            # interpolator and its keyword arguments can only be given by keyword
            if st == "pos" and opt:
                st = "mix"
            args = [E(spec["d"], env), E(spec["values"], env)]
            if st == "kw":
                return InterpolatedWaveform(duration=args[0], values=args[1], **dict(opt), **extra)
            return InterpolatedWaveform(*args, **dict(opt), **extra)
        return call_styled(InterpolatedWaveform, ["duration", "values"], [E(spec["d"], env), E(spec["values"], env)], opt, st)
    if k == "custom":
        return call_styled(CustomWaveform, ["samples"], [E(spec["samples"], env)], [], st)
    if k == "composite":
        return CompositeWaveform(*[build_wf(p, env) for p in spec["parts"]])
    raise ValueError(k)


def build_pulse(spec, env):
    k = spec["k"]
    st = spec.get("style", "pos")
    opt = [("post_phase_shift", E(spec["post"], env))] if spec.get("post") is not None else []
    if k == "pulse":
        return call_styled(Pulse, ["amplitude", "detuning", "phase"],
                           [build_wf(spec["amp"], env), build_wf(spec["det"], env), E(spec["phase"], env)], opt, st)
    if k == "const_amp":
        return call_styled(Pulse.ConstantAmplitude, ["amplitude", "detuning", "phase"],
                           [E(spec["amp"], env), build_wf(spec["det"], env), E(spec["phase"], env)], opt, st)
    if k == "const_det":
        return call_styled(Pulse.ConstantDetuning, ["amplitude", "detuning", "phase"],
                           [build_wf(spec["amp"], env), E(spec["det"], env), E(spec["phase"], env)], opt, st)
    if k == "const_pulse":
        return call_styled(Pulse.ConstantPulse, ["duration", "amplitude", "detuning", "phase"],
                           [E(spec["d"], env), E(spec["amp"], env), E(spec["det"], env), E(spec["phase"], env)], opt, st)
    if k == "arb_phase":
        return call_styled(Pulse.ArbitraryPhase, ["amplitude", "phase"],
                           [build_wf(spec["amp"], env), build_wf(spec["phase_wf"], env)], opt, st)
    raise ValueError(k)


def opt_args(op, pairs, env):
    return [(pname, E(op[key], env)) for key, pname in pairs if op.get(key) is not None]


def exec_op(seq: Sequence, op: dict, env: dict, maps: list):
    k = op["op"]
    st = op.get("style", "mix")
    if k == "declare_var":
        kw = {}
        if op.get("size") is not None:
            kw["size"] = op["size"]
        env[op["name"]] = seq.declare_variable(op["name"], dtype={"int": int, "float": float}[op["dtype"]], **kw)
    elif k == "declare":
        call_styled(seq.declare_channel, ["name", "channel_id"], [op["name"], op["channel_id"]],
                    opt_args(op, [("initial_target", "initial_target")], env), st)
    elif k == "target":
        call_styled(seq.target, ["qubits", "channel"], [E(op["qubits"], env), op["channel"]], [], st)
    elif k == "target_index":
        call_styled(seq.target_index, ["qubits", "channel"], [E(op["qubits"], env), op["channel"]], [], st)
    elif k == "delay":
        call_styled(seq.delay, ["duration", "channel"], [E(op["duration"], env), op["channel"]],
                    opt_args(op, [("at_rest", "at_rest")], env), st)
    elif k == "add":
        call_styled(seq.add, ["pulse", "channel"], [build_pulse(op["pulse"], env), op["channel"]],
                    opt_args(op, [("protocol", "protocol")], env), st)
    elif k == "add_dmm":
        call_styled(seq.add_dmm_detuning, ["waveform", "dmm_name"], [build_wf(op["wf"], env), op["channel"]],
                    opt_args(op, [("protocol", "protocol")], env), st)
    elif k == "align":
        seq.align(*op["channels"], **dict(opt_args(op, [("at_rest", "at_rest")], env)))
    elif k == "phase_shift":
        kw = dict(opt_args(op, [("basis", "basis")], env))
        if op.get("phi_kw"):
            seq.phase_shift(phi=E(op["phi"], env), **kw)
        else:
            seq.phase_shift(E(op["phi"], env), *op.get("targets", []), **kw)
    elif k == "phase_shift_index":
        seq.phase_shift_index(E(op["phi"], env), *[E(t, env) for t in op.get("targets", [])],
                              **dict(opt_args(op, [("basis", "basis")], env)))
    elif k in ("enable_eom", "modify_eom"):
        f = seq.enable_eom_mode if k == "enable_eom" else seq.modify_eom_setpoint
        call_styled(f, ["channel", "amp_on", "detuning_on"],
                    [op["channel"], E(op["amp_on"], env), E(op["det_on"], env)],
                    opt_args(op, [("opt_off", "optimal_detuning_off"), ("correct", "correct_phase_drift")], env), st)
    elif k == "add_eom":
        call_styled(seq.add_eom_pulse, ["channel", "duration", "phase"],
                    [op["channel"], E(op["duration"], env), E(op["phase"], env)],
                    opt_args(op, [("post", "post_phase_shift"), ("protocol", "protocol"), ("correct", "correct_phase_drift")], env),
                    "mix" if st == "pos" and op.get("correct") is not None and op.get("protocol") is None else st)
    elif k == "disable_eom":
        call_styled(seq.disable_eom_mode, ["channel"], [op["channel"]],
                    opt_args(op, [("correct", "correct_phase_drift")], env), st)
    elif k == "measure":
        if op.get("basis") is None:
            seq.measure()
        elif st == "kw":
            seq.measure(basis=op["basis"])
        else:
            seq.measure(op["basis"])
    elif k == "config_slm":
        call_styled(seq.config_slm_mask, ["qubits"], [E(op["qubits"], env)],
                    opt_args(op, [("dmm_id", "dmm_id")], env), st)
    elif k == "config_detmap":
        call_styled(seq.config_detuning_map, ["detuning_map", "dmm_id"], [maps[op["map"]], op["dmm_id"]], [], st)
    elif k == "set_mag":
        seq.set_magnetic_field(op["bx"], op["by"], op["bz"])
    else:
        raise ValueError("unknown op " + k)


def make_maps(case, reg):
    """detuning maps: {id: weight} or [[id, weight], ...] (the latter keeps
    integer qubit ids through JSON)"""
    maps = []
    for m in case.get("maps", []):
        items = list(m.items()) if isinstance(m, dict) else [tuple(x) for x in m]
        if isinstance(reg, MappableRegister):
            lay = reg.layout
            maps.append(lay.define_detuning_map({int(t): w for t, w in items}))
        else:
            maps.append(reg.define_detuning_map({q: w for q, w in items}))
    return maps


def build_sequence(case):
    """-> (seq, env, outcomes): the sequence produced by the successful calls
    of the program.  A call that raises may leave traces behind (that is
    C09's subject, not this property's): the sequence is then rebuilt from
    the calls that succeeded so far."""
    dev = build_device(case["device"])

    def fresh():
        reg = build_register(case["register"])
        return Sequence(reg, dev), {}, make_maps(case, reg)

    seq, env, maps = fresh()
    outcomes = []
    good = []
    for op in case["ops"]:
        try:
            exec_op(seq, op, env, maps)
            outcomes.append("ok")
            good.append(op)
        except Exception as e:  # noqa: BLE001
            outcomes.append(type(e).__name__)
            seq, env, maps = fresh()
            for g in good:
                exec_op(seq, g, env, maps)
    return seq, env, outcomes


# ------------------------------------------------------------------ snapshots
def arr(x):
    a = np.asarray(x.as_array(detach=True) if hasattr(x, "as_array") else x, dtype=float)
    return a


def f1(x) -> str:
    """a float by its exact text (NaN equal to NaN)"""
    v = float(np.asarray(x.as_array(detach=True) if hasattr(x, "as_array") else x, dtype=float).ravel()[0])
    return "nan" if v != v else v.hex()


def wf_params(w):
    """defining parameters of a concrete waveform (class, constructor
    arguments, interpolator and its keyword arguments)"""
    if isinstance(w, CompositeWaveform):
        return ("CompositeWaveform", tuple(wf_params(x) for x in w._waveforms))
    f = CONCRETE_FIELDS.get(type(w))
    if f is None:
        return (type(w).__name__,)
    name, args, kwargs = f(w)
    out = [name]
    for a in list(args) + [kwargs[k] for k in sorted(kwargs)]:
        if isinstance(a, str) or a is None:
            out.append(repr(a))
        else:
            out.append(np.asarray(a.as_array(detach=True) if hasattr(a, "as_array") else a, dtype=float).tobytes())
    if isinstance(w, InterpolatedWaveform):
        out.append(tuple(sorted((k, repr(v)) for k, v in w._kwargs.items() if k != "times")))
    return tuple(out)


def pulse_snap(p: Pulse):
    return (
        "pulse",
        int(p.duration),
        arr(p.amplitude.samples).tobytes(),
        arr(p.detuning.samples).tobytes(),
        f1(p.phase),
        f1(p.post_phase_shift),
        type(p.amplitude).__name__,
        type(p.detuning).__name__,
        wf_params(p.amplitude),
        wf_params(p.detuning),
    )


def snapshot(seq: Sequence):
    """behaviour of a built (non-parametrized, non-mappable) sequence"""
    chans = {}
    for name, cs in seq._schedule.items():
        slots = []
        for s in cs.slots:
            ty = pulse_snap(s.type) if isinstance(s.type, Pulse) else s.type
            slots.append((int(s.ti), int(s.tf), ty, tuple(sorted(map(str, s.targets)))))
        eom = [
            (int(b.ti), None if b.tf is None else int(b.tf), f1(b.rabi_freq), f1(b.detuning_on), f1(b.detuning_off))
            for b in cs.eom_blocks
        ]
        dm = getattr(cs, "detuning_map", None)
        chans[name] = dict(
            channel_id=cs.channel_id,
            channel=repr(cs.channel_obj),
            slots=slots,
            eom=eom,
            detmap=None if dm is None else (arr(dm.sorted_coords).tobytes(), arr(dm.sorted_weights).tobytes()),
        )
    refs = {}
    for basis, d in seq._basis_ref.items():
        refs[basis] = {
            str(q): ([int(t) for t in r.phase._times], [f1(p) for p in r.phase._phases], int(r.last_used))
            for q, r in d.items()
        }
    return dict(
        register=reg_snap(seq.register),
        channels=chans,
        refs=refs,
        measurement=getattr(seq, "_measurement", None),
        mag=None if seq._mag_field is None else tuple(float(x) for x in seq.magnetic_field),
        slm=(tuple(sorted(map(str, seq._slm_mask_targets))), seq._slm_mask_dmm if seq._slm_mask_targets else None),
        in_xy=bool(seq._in_xy),
        text=safe_str(seq),
    )


def safe_str(seq):
    """the sequence's own textual rendering, channel blocks in canonical order
    (the deserializer declares all channels first, which permutes them)"""
    try:
        blocks = [b.strip() for b in str(seq).split("\n\n") if b.strip()]
        return "\n\n".join(sorted(blocks))
    except Exception as e:  # noqa: BLE001
        return "<" + type(e).__name__ + ">"


def reg_snap(reg):
    if isinstance(reg, MappableRegister):
        return ("mappable", tuple(reg.qubit_ids), layout_snap(reg.layout))
    return (
        type(reg).__name__,
        tuple(map(str, reg.qubit_ids)),
        arr(reg.sorted_coords if hasattr(reg, "sorted_coords") else reg._coords_arr).tobytes(),
        tuple(np.asarray(reg._coords_arr.as_array(detach=True), dtype=float).ravel().tolist()),
        layout_snap(reg.layout),
    )


def layout_snap(lay):
    if lay is None:
        return None
    return (arr(lay.sorted_coords).tobytes(), lay.slug)


def static_snap(seq: Sequence):
    """what can be compared without building"""
    return dict(
        device=seq.device,
        register=reg_snap(seq.get_register(include_mappable=True)),
        # DMM channels pending in a parametrized sequence are compared once built
        channels={n: (cs.channel_id, repr(cs.channel_obj)) for n, cs in seq._schedule.items()},
        declared=sorted(n for n in seq.declared_channels if not n.startswith("dmm_")),
        variables={n: (v.dtype.__name__, v.size) for n, v in seq.declared_variables.items()},
        parametrized=seq.is_parametrized(),
        mappable=seq.is_register_mappable(),
        measured=seq.is_measured(),
        mag=None if seq._mag_field is None else tuple(float(x) for x in seq.magnetic_field),
    )


def diff_snap(a: dict, b: dict, prefix=""):
    """first difference between two snapshots, as a short stable tag"""
    for k in a:
        if k not in b:
            return prefix + k + ":missing"
        x, y = a[k], b[k]
        if k == "channels" and isinstance(x, dict) and isinstance(y, dict):
            if set(x) != set(y):
                return prefix + "channels:names"
            for n in x:
                if isinstance(x[n], dict):
                    d = diff_snap(x[n], y[n], prefix + "channel.")
                    if d:
                        return d
                elif x[n] != y[n]:
                    return prefix + "channels:object"
            continue
        if k == "slots":
            if len(x) != len(y):
                return prefix + "slots:count"
            for s, t in zip(x, y):
                if (s[0], s[1]) != (t[0], t[1]):
                    return prefix + "slots:times"
                if s[3] != t[3]:
                    return prefix + "slots:targets"
                if s[2] != t[2]:
                    if isinstance(s[2], tuple) and isinstance(t[2], tuple):
                        names = ["", "duration", "amplitude", "detuning", "phase", "post_phase_shift", "amp-class", "det-class",
                                 "amp-parameters", "det-parameters"]
                        for i in range(1, 10):
                            if s[2][i] != t[2][i]:
                                return prefix + "pulse:" + names[i]
                    return prefix + "slots:kind"
            continue
        try:
            same = x == y
        except Exception:  # noqa: BLE001
            same = False
        if not same:
            return prefix + k
    return None


def try_build(seq: Sequence, assignment: dict | None, qubits: dict | None):
    kw = dict(assignment or {})
    if qubits is not None:
        kw["qubits"] = qubits
    try:
        with warnings.catch_warnings():
            warnings.simplefilter("ignore")
            return seq.build(**kw), None
    except Exception as e:  # noqa: BLE001
        return None, type(e).__name__


BUILD_STATS = {"ok": 0, "both-fail": 0}


def compare_sequences(a: Sequence, b: Sequence, case: dict):
    """-> list of (tag, detail): differences in behaviour between the original
    sequence a and the reconstructed sequence b"""
    out = []
    sa = static_snap(a)
    try:
        sb = static_snap(b)
    except Exception as e:  # noqa: BLE001
        import traceback

        where = traceback.extract_tb(e.__traceback__)[-1].name
        return [(f"reconstructed-raises:{type(e).__name__}:{where}", str(e)[:200])]
    for _ in range(4):
        d = diff_snap(sa, sb)
        if d is None:
            break
        key = d
        if d == "device":
            import dataclasses

            fl = [f.name for f in dataclasses.fields(sa["device"])
                  if getattr(sa["device"], f.name) != getattr(sb["device"], f.name, None)]
            d += ":" + ",".join(fl)
            if fl == ["dmm_objects"] and not sa["device"].dmm_objects:
                d += ":none->default"
        if d == "parametrized" and sa["variables"] and not sa["parametrized"]:
            d += ":declared-unused-variables"
        out.append(("static:" + d, ""))
        if key not in ("device", "parametrized", "measured"):
            return out
        sb[key] = sa[key]  # keep comparing the rest
        if key == "parametrized":
            sb["measured"] = sa["measured"]  # a consequence
    needs_build = a.is_parametrized() or b.is_parametrized() or a.is_register_mappable()
    if not needs_build:
        d = diff_snap(snapshot(a), snapshot(b))
        if d:
            out.append(("built:" + d, ""))
        return out
    qubits = case.get("qubits")
    for i, asg in enumerate(case.get("assignments") or [{}]):
        ba, ea = try_build(a, asg, qubits)
        bb, eb = try_build(b, asg, qubits)
        if ea or eb:
            if ea != eb:
                out.append((f"build-outcome", f"assignment {i}: original {ea or 'ok'}, reconstructed {eb or 'ok'}"))
            else:
                BUILD_STATS["both-fail"] += 1
            continue
        BUILD_STATS["ok"] += 1
        d = diff_snap(snapshot(ba), snapshot(bb))
        if d:
            out.append(("built:" + d, f"assignment {i}"))
    return out


# ------------------------------------------------------------------ recording deserializer
class _Rec:
    METHODS = [
        "declare_channel", "set_magnetic_field", "config_slm_mask", "declare_variable", "target",
        "target_index", "align", "delay", "phase_shift", "phase_shift_index", "add", "enable_eom_mode",
        "modify_eom_setpoint", "add_eom_pulse", "disable_eom_mode", "add_dmm_detuning",
        "config_detuning_map", "measure",
    ]


def make_recording_class():
    """A Sequence subclass logging the outermost public building calls made
    on it (used to observe which calls the deserializer issues)."""

    class RecSeq(Sequence):
        def __init__(self, *a, **k):
            object.__setattr__(self, "_rec", [])
            object.__setattr__(self, "_rec_depth", 0)
            super().__init__(*a, **k)

    def wrap(name):
        orig = getattr(Sequence, name)

        @functools.wraps(orig)
        def f(self, *args, **kwargs):
            if self._rec_depth == 0:
                self._rec.append((name, args, dict(kwargs)))
            self._rec_depth += 1
            try:
                return orig(self, *args, **kwargs)
            finally:
                self._rec_depth -= 1

        return f

    for m in _Rec.METHODS:
        setattr(RecSeq, m, wrap(m))
    return RecSeq


@contextlib.contextmanager
def recording():
    cls = make_recording_class()
    old = pulser.Sequence
    pulser.Sequence = cls
    try:
        yield cls
    finally:
        pulser.Sequence = old


# ------------------------------------------------------------------ presentation as Coq terms
def cstr(s: str) -> str:
    if not isinstance(s, str) or any(ord(c) < 32 or ord(c) == 127 for c in s):
        raise Infra(f"cannot present string {s!r}")
    return '"' + s.replace('"', '""') + '"'


def clist(items) -> str:
    return "[" + "; ".join(items) + "]"


def cfloat(x) -> str:
    return "(" + fhex(float(x)) + ")"


def cjson(v) -> str:
    if v is None:
        return "JNull"
    if isinstance(v, bool):
        return "(JBool %s)" % ("true" if v else "false")
    if isinstance(v, int):
        return "(JInt (%d))" % v
    if isinstance(v, float):
        return "(JFlt %s)" % cfloat(v)
    if isinstance(v, str):
        return "(JStr %s)" % cstr(v)
    if isinstance(v, (list, tuple)):
        return "(JArr %s)" % clist(cjson(x) for x in v)
    if isinstance(v, dict):
        return "(JObj %s)" % clist("(%s, %s)" % (cstr(k), cjson(x)) for k, x in v.items())
    raise Infra(f"json value {type(v)}")


def copt(x, f) -> str:
    return "None" if x is None else "(Some %s)" % f(x)


def cZ(z) -> str:
    return "(%d)" % int(z)


def stub_json(doc: dict) -> dict:
    """device / layout sub-documents are C17's subject: replaced by a digest"""
    import hashlib

    d = dict(doc)
    for k in ("device",):
        if k in d and not isinstance(d[k], str):
            d[k] = "#" + hashlib.sha1(json.dumps(d[k], sort_keys=True).encode()).hexdigest()[:16]
    return d


def opaque(o) -> str:
    """objects whose own codec is not C04's subject, by their abstract repr"""
    from pulser.json.abstract_repr.serializer import AbstractReprEncoder

    try:
        j = json.loads(json.dumps(o, cls=AbstractReprEncoder))
    except Exception:  # noqa: BLE001
        # the object's own encoder raises: the model's encoder must fail too
        return '(VClass "#unserialisable")'
    if isinstance(j, dict) and "channels" in j:
        import hashlib

        j = "#" + hashlib.sha1(json.dumps(j, sort_keys=True).encode()).hexdigest()[:16]
    return "(VJson %s)" % cjson(j)


def present_key(k) -> str:
    if isinstance(k, (int, np.integer)):
        return "(KInt %s)" % cZ(k)
    if isinstance(k, slice):
        return "(KSlice %s %s %s)" % (copt(k.start, cZ), copt(k.stop, cZ), copt(k.step, cZ))
    return "(KList %s)" % clist(cZ(i) for i in k)


CONCRETE_FIELDS = {
    ConstantWaveform: lambda w: ("ConstantWaveform", [w._duration, w._value], {}),
    RampWaveform: lambda w: ("RampWaveform", [w._duration, w._start, w._stop], {}),
    BlackmanWaveform: lambda w: ("BlackmanWaveform", [w._duration, w._area], {}),
    KaiserWaveform: lambda w: ("KaiserWaveform", [w._duration, w._area], {"beta": w._beta}),
    # _to_abstract_repr refuses a non-default interpolator / extra keyword arguments: they
    # are presented as keyword arguments (outside the signature, so the model refuses too)
    InterpolatedWaveform: lambda w: (
        "InterpolatedWaveform", [w._duration, w._values],
        {"times": w._times,
         **({k: v for k, v in w._kwargs.items() if k != "times"}
            if (w._kwargs["interpolator"] != "PchipInterpolator" or set(w._kwargs) - {"times", "interpolator"}) else {})}),
    CustomWaveform: lambda w: ("CustomWaveform", [w._samples], {}),
    CompositeWaveform: lambda w: ("CompositeWaveform", list(w._waveforms), {}),
}


def present(o) -> str:
    """Python object -> Coq [val] term"""
    from pulser.math.abstract_array import AbstractArray
    from pulser.register.weight_maps import DetuningMap

    if o is None:
        return "VNone"
    if isinstance(o, (bool, np.bool_)):
        return "(VBool %s)" % ("true" if o else "false")
    if isinstance(o, (int, np.integer)):
        return "(VInt %s)" % cZ(o)
    if isinstance(o, (float, np.floating)):
        return "(VFlt %s)" % cfloat(o)
    if isinstance(o, str):
        return "(VStr %s)" % cstr(o)
    if isinstance(o, AbstractArray):
        return present(o.as_array(detach=True))
    if isinstance(o, np.ndarray):
        return present(o.tolist())
    if isinstance(o, (list, tuple)):
        return "(VList %s)" % clist(present(x) for x in o)
    if isinstance(o, (set, frozenset)):
        return "(VList %s)" % clist(present(x) for x in list(o))
    if isinstance(o, Variable):
        return "(VVar %s %s)" % (cstr(o.name), cZ(o.size))
    if isinstance(o, VariableItem):
        return "(VItem %s %s %s)" % (cstr(o.var.name), cZ(o.var.size), present_key(o.key))
    if isinstance(o, ParamObj):
        if isinstance(o.cls, ParamObj):
            raise Infra("call to a parametrized object: outside the generator's range")
        return "(VPObj %s %s %s)" % (
            cstr(o.cls.__name__),
            clist(present(x) for x in o.args),
            clist("(%s, %s)" % (cstr(k), present(v)) for k, v in o.kwargs.items()),
        )
    if inspect.isclass(o):
        return "(VClass %s)" % cstr(o.__name__)
    if isinstance(o, Pulse):
        return "(VObj \"Pulse\" %s %s)" % (
            clist([present(o.amplitude), present(o.detuning), present(o.phase)]),
            clist(["(\"post_phase_shift\", %s)" % present(o.post_phase_shift)]),
        )
    if isinstance(o, Waveform):
        f = CONCRETE_FIELDS.get(type(o))
        if f is None:
            raise Infra(f"unknown waveform class {type(o)}")
        name, args, kwargs = f(o)
        return "(VObj %s %s %s)" % (
            cstr(name),
            clist(present(x) for x in args),
            clist("(%s, %s)" % (cstr(k), present(v)) for k, v in kwargs.items()),
        )
    if isinstance(o, (DetuningMap, RegisterLayout, Register, Register3D, MappableRegister)) or hasattr(o, "_to_abstract_repr"):
        return opaque(o)
    raise Infra(f"cannot present {type(o)}")


def present_call(name, args, kwargs) -> str:
    return "(mkCall %s %s %s)" % (
        cstr(name),
        clist(present(a) for a in args),
        clist("(%s, %s)" % (cstr(k), present(v)) for k, v in kwargs.items()),
    )


def seqin_term(seq: Sequence, seq_name: str, defaults: dict | None, qubits: dict | None) -> str:
    calls = [present_call(c.name, c.args, c.kwargs) for c in list(seq._calls) + list(seq._to_build_calls)]
    reg = seq.get_register(include_mappable=True)
    lay = reg.layout
    from pulser.json.abstract_repr.serializer import AbstractReprEncoder

    layj = None
    if lay is not None:
        layj = stub_json({"layout": json.loads(json.dumps(lay, cls=AbstractReprEncoder))})["layout"]
    vs = clist(
        "(%s, (%s, %s))" % (cstr(n), "true" if v.dtype is int else "false", cZ(v.size))
        for n, v in seq._variables.items()
    )
    mag = clist(cfloat(x) for x in (seq.magnetic_field.tolist() if seq._mag_field is not None else []))
    dfl = "None"
    if defaults is not None:
        dfl = "(Some %s)" % clist(
            "(%s, %s)" % (cstr(n), clist(present(x) for x in np.atleast_1d(np.asarray(v)).tolist()))
            for n, v in defaults.items()
        )
    qb = "None"
    if qubits is not None:
        qb = "(Some %s)" % clist("(%s, %s)" % (cstr(q), cZ(t)) for q, t in qubits.items())
    return (
        "{| s_name := %s; s_calls := %s; s_vars := %s; s_qids := %s; s_layout := %s; s_in_xy := %s;"
        " s_mag := %s; s_defaults := %s; s_qubits := %s |}"
        % (
            cstr(seq_name),
            clist(calls),
            vs,
            clist(present(q) for q in reg.qubit_ids),
            copt(layj, cjson),
            "true" if seq._in_xy else "false",
            mag,
            dfl,
            qb,
        )
    )
