"""C08 generator: takes a concrete building history from harness/seqgen.py and
replaces a random subset of its numeric arguments by variable expressions
(scalars, array items, whole arrays, arithmetic, functions, shared
sub-expressions), then draws a list of assignments to build with."""
from __future__ import annotations

import copy
import math
import random

from harness import seqgen

GRIDF = [0.125, 0.25, 0.5, 1.0, 1.5, 2.0, 3.0]


class HB:
    """heap builder; mirrors the order in which the python objects are created"""

    def __init__(self, rng):
        self.rng = rng
        self.vars = []
        self.heap = []
        self.env = {}  # name -> value or list
        self.pool = {"int": [], "float": []}  # reusable expression nodes
        self.arrays = {"int": [], "float": []}  # (var node id, name)

    def _name(self):
        return f"v{len(self.vars)}"

    def scalar(self, dtype, value, foreign=False):
        name = self._name()
        self.vars.append(dict(name=name, dtype=dtype, size=None, **({"foreign": True} if foreign else {})))
        self.heap.append(dict(k="item", var=name, key=0, scalar=True))
        self.env[name] = value
        return len(self.heap) - 1

    def array(self, dtype, values):
        name = self._name()
        self.vars.append(dict(name=name, dtype=dtype, size=len(values)))
        self.heap.append(dict(k="var", name=name))
        self.env[name] = list(values)
        nid = len(self.heap) - 1
        self.arrays[dtype].append((nid, name))
        return nid

    def item(self, var_nid, key, slc=None):
        name = self.heap[var_nid]["name"]
        n = dict(k="item", var=name, key=key)
        if slc is not None:
            n["slice"] = slc
        self.heap.append(n)
        return len(self.heap) - 1

    def op(self, cls, args, **kw):
        self.heap.append(dict(k="op", cls=cls, args=args, **kw))
        return len(self.heap) - 1

    def hidden(self, cls, args):
        self.heap.append(dict(k="op", cls=cls, args=args, hidden=True))
        return len(self.heap) - 1


def lit(v):
    return {"i": int(v)} if isinstance(v, int) and not isinstance(v, bool) else {"f": float(v)}


def ref(i):
    return {"r": i}


def leaf(hb: HB, kind, v):
    """a variable-like node whose value under env is v"""
    rng = hb.rng
    r = rng.random()
    dt = "int" if kind == "int" else "float"
    val = int(v) if kind == "int" else float(v)
    if r < 0.45:
        return hb.scalar(dt, val)
    if r < 0.8:
        # item of a (new or existing) array
        if hb.arrays[dt] and rng.random() < 0.5:
            vn, name = rng.choice(hb.arrays[dt])
            k = rng.randrange(len(hb.env[name]))
            hb.env[name][k] = val
        else:
            n = rng.randint(1, 4)
            vals = [val if dt == "float" else int(val)] * n
            vn = hb.array(dt, vals)
            name = hb.heap[vn]["name"]
            k = rng.randrange(n)
        size = len(hb.env[name])
        key = k if rng.random() < 0.7 else k - size
        return hb.item(vn, key)
    # int variable used for a float field and the other way round
    if kind == "float" and float(v).is_integer() and abs(v) < 1e6:
        return hb.scalar("int", int(v))
    return hb.scalar(dt, val)


def round_sugar(hb: HB, x, d):
    """round(x, d) as OpSupport.__round__ writes it: (x * 10**d).rint() / 10**d"""
    m = hb.hidden(22, [ref(x), lit(10 ** d)])
    rr = hb.hidden(4, [ref(m)])
    return hb.op(23, [ref(rr), lit(10 ** d)], sugar="round", src=x, digits=d)


def round_tie(hb: HB, kind, v):
    """round(...) of an expression whose value sits exactly on a tie
    (x.5 after scaling), where half-to-even and half-up differ for even floors"""
    rng = hb.rng
    if kind == "int":
        v = int(v)
        q = rng.choice([2, 2, 4])
        # x / q = v + 0.5 (or v - 0.5): round(T / 2) with T odd, round(T / 4) with T = 2 mod 4
        x = hb.scalar("int", q * v + rng.choice([q // 2, -(q // 2)]))
        dnode = hb.op(23, [ref(x), lit(q)])
        return round_sugar(hb, dnode, 0)
    v = float(v)
    d = rng.choice([0, 0, 1, 2])
    den = {0: 1, 1: 4, 2: 8}[d]  # m/4 * 10 and m/8 * 100 are exact x.5 for odd m
    if d == 0:
        t = math.floor(v) + 0.5
    else:
        m = int(math.floor(v * den))
        if m % 2 == 0:
            m += 1
        t = m / den
    x = hb.scalar("float", t)
    if rng.random() < 0.3:
        c = rng.choice([1.0, 2.0, -1.0])
        hb.env[hb.vars[-1]["name"]] = t - c
        x = hb.op(20, [ref(x), lit(c)])
    return round_sugar(hb, x, d)


def expr(hb: HB, kind, v, depth=0):
    """-> heap id of an expression whose value under hb.env is (close to) v"""
    rng = hb.rng
    if hb.pool[kind] and rng.random() < 0.18:
        return rng.choice(hb.pool[kind])
    r = rng.random()
    if rng.random() < 0.1 and abs(v) < 1e6:
        nid = round_tie(hb, kind, v)
    elif depth >= 2 or r < 0.3:
        nid = leaf(hb, kind, v)
    elif kind == "int":
        v = int(v)
        form = rng.choice(["add", "radd", "sub", "rsub", "mul", "neg", "abs", "mod", "floordiv", "two", "pow", "div"])
        if form == "add":
            c = rng.choice([1, 4, 8, 16])
            nid = hb.op(20, [ref(expr(hb, "int", v - c, depth + 1)), lit(c)])
        elif form == "radd":
            c = rng.choice([1, 4, 100])
            nid = hb.op(20, [lit(c), ref(expr(hb, "int", v - c, depth + 1))])
        elif form == "sub":
            c = rng.choice([1, 4, 8])
            nid = hb.op(21, [ref(expr(hb, "int", v + c, depth + 1)), lit(c)])
        elif form == "rsub":
            c = v + rng.choice([1, 4, 16])
            nid = hb.op(21, [lit(c), ref(expr(hb, "int", c - v, depth + 1))])
        elif form == "mul":
            c = rng.choice([2, 4])
            nid = hb.op(22, [ref(expr(hb, "int", v // c, depth + 1)), lit(c)])
        elif form == "neg":
            nid = hb.op(0, [ref(expr(hb, "int", -v, depth + 1))])
        elif form == "abs":
            nid = hb.op(1, [ref(expr(hb, "int", rng.choice([v, -v]), depth + 1))])
        elif form == "mod":
            m = abs(v) + rng.choice([1, 7, 1000])
            nid = hb.op(25, [ref(expr(hb, "int", v + m * rng.choice([0, 1, 2]), depth + 1)), lit(m)])
        elif form == "floordiv":
            c = rng.choice([2, 3])
            x = expr(hb, "int", v * c + rng.randrange(c), depth + 1)
            d = hb.hidden(23, [ref(x), lit(c)])
            nid = hb.op(3, [ref(d)], sugar="floordiv", src_args=[ref(x), lit(c)])
        elif form == "two":
            a = v // 2
            nid = hb.op(20, [ref(expr(hb, "int", a, depth + 1)), ref(expr(hb, "int", v - a, depth + 1))])
        elif form == "pow":
            b = int(math.isqrt(abs(v)))
            x = expr(hb, "int", b, depth + 1)
            p = hb.op(24, [ref(x), lit(2)])
            nid = hb.op(20, [ref(p), lit(v - b * b)])
        else:  # true division: a float that happens to be integral
            c = rng.choice([2, 4])
            nid = hb.op(23, [ref(expr(hb, "int", v * c, depth + 1)), lit(c)])
    else:
        v = float(v)
        form = rng.choice(["add", "rsub", "mul", "rdiv", "div", "neg", "abs", "round", "floor", "ceil", "rint",
                           "sqrt", "fun", "pow", "mod", "two", "mixed"])
        if form == "add":
            c = rng.choice(GRIDF)
            nid = hb.op(20, [ref(expr(hb, "float", v - c, depth + 1)), lit(c)])
        elif form == "rsub":
            c = rng.choice(GRIDF)
            nid = hb.op(21, [lit(c), ref(expr(hb, "float", c - v, depth + 1))])
        elif form == "mul":
            c = rng.choice([2.0, 0.5, 3.0, 0.1])
            nid = hb.op(22, [ref(expr(hb, "float", v / c, depth + 1)), lit(c)])
        elif form == "div":
            c = rng.choice([2.0, 0.5, 3.0, 7.0])
            nid = hb.op(23, [ref(expr(hb, "float", v * c, depth + 1)), lit(c)])
        elif form == "rdiv":
            if v != 0:
                c = rng.choice([1.0, 2.0])
                nid = hb.op(23, [lit(c), ref(expr(hb, "float", c / v, depth + 1))])
            else:
                nid = leaf(hb, "float", v)
        elif form == "neg":
            nid = hb.op(0, [ref(expr(hb, "float", -v, depth + 1))])
        elif form == "abs":
            nid = hb.op(1, [ref(expr(hb, "float", rng.choice([v, -v]) if v >= 0 else v, depth + 1))])
            if v < 0:
                nid = hb.op(0, [ref(nid)])
        elif form == "round":
            d = rng.choice([0, 1, 2, 3])
            x = expr(hb, "float", v + rng.choice([0.0, 0.004, -0.0004]), depth + 1)
            m = hb.hidden(22, [ref(x), lit(10 ** d)])
            rr = hb.hidden(4, [ref(m)])
            nid = hb.op(23, [ref(rr), lit(10 ** d)], sugar="round", src=x, digits=d)
        elif form in ("floor", "ceil", "rint"):
            cls = {"floor": 3, "ceil": 2, "rint": 4}[form]
            off = {"floor": 0.3, "ceil": -0.3, "rint": 0.2}[form]
            nid = hb.op(cls, [ref(expr(hb, "float", math.floor(v) + off if form != "ceil" else math.ceil(v) + off, depth + 1))])
        elif form == "sqrt":
            if v >= 0:
                nid = hb.op(5, [ref(expr(hb, "float", v * v, depth + 1))])
            else:
                nid = hb.op(0, [ref(hb.op(5, [ref(expr(hb, "float", v * v, depth + 1))]))])
        elif form == "fun":
            cls = rng.choice([6, 7, 8, 9, 10, 11, 12])
            inv = {6: lambda y: math.log(y) if y > 0 else 0.5, 7: lambda y: 2.0 ** min(y, 30), 8: lambda y: math.exp(min(y, 30)),
                   9: lambda y: math.asin(y) if abs(y) <= 1 else 0.3, 10: lambda y: math.acos(y) if abs(y) <= 1 else 0.3,
                   11: lambda y: math.atan(y), 12: lambda y: math.atanh(y) if abs(y) < 1 else 0.3}[cls]
            nid = hb.op(cls, [ref(expr(hb, "float", inv(v), depth + 1))])
        elif form == "pow":
            if v >= 0:
                e = rng.choice([2, 2.0, 0.5, 3])
                nid = hb.op(24, [ref(expr(hb, "float", v ** (1.0 / e), depth + 1)), lit(e)])
            else:
                nid = leaf(hb, "float", v)
        elif form == "mod":
            m = rng.choice([2 * math.pi, 8.0, 100.0])
            nid = hb.op(25, [ref(expr(hb, "float", v + m * rng.choice([0, 1, -1]), depth + 1)), lit(m)])
        elif form == "two":
            a = rng.choice(GRIDF)
            nid = hb.op(rng.choice([20, 22]) if False else 20,
                        [ref(expr(hb, "float", a, depth + 1)), ref(expr(hb, "float", v - a, depth + 1))])
        else:  # float * int
            k = rng.choice([1, 2, 4])
            nid = hb.op(22, [ref(expr(hb, "float", v / k, depth + 1)), ref(expr(hb, "int", k, depth + 1))])
    if rng.random() < 0.5:
        hb.pool[kind].append(nid)
    return nid


def maybe(hb, kind, v, p):
    return ref(expr(hb, kind, v)) if hb.rng.random() < p else v


def wf_node(hb: HB, spec, d_arg, p):
    """-> arg for a waveform: a heap node if something in it is a variable,
    else the literal"""
    rng = hb.rng
    k = spec["k"]
    if k == "const":
        a = [d_arg, _a(maybe(hb, "float", spec["v"], p))]
        cls = 100
    elif k == "ramp":
        a = [d_arg, _a(maybe(hb, "float", spec["a"], p)), _a(maybe(hb, "float", spec["b"], p))]
        cls = 101
    elif k == "blackman":
        a = [d_arg, _a(maybe(hb, "float", spec["area"], p))]
        cls = 102
    else:
        return {"wf": spec}
    if any("r" in x for x in a):
        return ref(hb.op(cls, a))
    return {"wf": spec}


def _a(x):
    return x if isinstance(x, dict) else lit(x)


PARAM_KINDS = ("const", "ramp", "blackman")


def param_pulse(hb: HB, p, prob):
    """-> {"r": id} of a Pulse node, or None to keep the literal pulse"""
    rng = hb.rng
    amp, det = p["amp"], p["det"]
    d = seqgen.wf_dur(amp)
    ph = _a(maybe(hb, "float", p["phase"], prob))
    post = _a(maybe(hb, "float", p.get("post", 0.0), prob * 0.6))
    both_const = amp["k"] == "const" and det["k"] == "const"
    form = rng.random()
    if both_const and form < 0.4:
        dd = _a(maybe(hb, "int", d, prob))
        a = _a(maybe(hb, "float", amp["v"], prob))
        de = _a(maybe(hb, "float", det["v"], prob))
        pa = "r" in dd or "r" in a
        pd = "r" in dd or "r" in de
        if not (pa or pd):
            if "r" in ph or "r" in post:
                return ref(hb.op(110, [{"wf": amp}, {"wf": det}, ph, post]))
            return None
        ia = hb.hidden(100, [dd, a]) if pa else None
        idt = hb.hidden(100, [dd, de]) if pd else None
        A = ref(ia) if pa else {"wf": dict(k="const", d=d, v=amp["v"])}
        D = ref(idt) if pd else {"wf": dict(k="const", d=d, v=det["v"])}
        return ref(hb.op(110, [A, D, ph, post], sugar="cpulse", src_args=[dd, a, de, ph, post],
                         hidden_ids=[ia, idt]))
    dd = _a(maybe(hb, "int", d, prob)) if (amp["k"] in PARAM_KINDS and det["k"] in PARAM_KINDS) else lit(d)
    if amp["k"] == "const" and form < 0.6:
        D = wf_node(hb, det, dd, prob)
        a = _a(maybe(hb, "float", amp["v"], prob))
        if any("r" in x for x in (a, D, ph, post)):
            return ref(hb.op(112, [a, D, ph, post]))
        return None
    if det["k"] == "const" and form < 0.8:
        A = wf_node(hb, amp, dd, prob)
        de = _a(maybe(hb, "float", det["v"], prob))
        if any("r" in x for x in (A, de, ph, post)):
            return ref(hb.op(113, [A, de, ph, post]))
        return None
    A = wf_node(hb, amp, dd, prob)
    D = wf_node(hb, det, dd, prob)
    if "r" in dd and ("wf" in A or "wf" in D):
        # the duration variable only went into one waveform: keep both in step
        if "wf" in A and amp["k"] in PARAM_KINDS:
            A = ref(hb.op({"const": 100, "ramp": 101, "blackman": 102}[amp["k"]],
                          [dd] + [lit(amp[f]) for f in {"const": ["v"], "ramp": ["a", "b"], "blackman": ["area"]}[amp["k"]]]))
        if "wf" in D and det["k"] in PARAM_KINDS:
            D = ref(hb.op({"const": 100, "ramp": 101, "blackman": 102}[det["k"]],
                          [dd] + [lit(det[f]) for f in {"const": ["v"], "ramp": ["a", "b"], "blackman": ["area"]}[det["k"]]]))
    if any("r" in x for x in (A, D, ph, post)):
        return ref(hb.op(110, [A, D, ph, post]))
    return None


BASIS_OF = {"Rydberg": "ground-rydberg", "Raman": "digital", "Microwave": "XY"}


def parametrize(rng, base, prob, mappable=False):
    hb = HB(rng)
    ops = []
    nested = False
    qn = len(base["register"]["ids"])
    for op in base["ops"]:
        k = op["op"]
        if k.startswith("q_") or k in ("estimate", "set_mag"):
            continue
        op = copy.deepcopy(op)
        if k == "delay":
            op["duration"] = maybe(hb, "int", op["duration"], prob)
        elif k == "add":
            r = param_pulse(hb, op["pulse"], prob) if rng.random() < prob + 0.2 else None
            if r is not None:
                op["pulse"] = r
        elif k == "add_dmm":
            w = wf_node(hb, op["wf"], _a(maybe(hb, "int", seqgen.wf_dur(op["wf"]), prob)), prob)
            if "r" in w:
                op["wf"] = w
        elif k == "target_index":
            idx = op["qubits"]
            r = rng.random()
            if r < prob * 0.5 and len(idx) == 1:
                op["qubits"] = ref(expr(hb, "int", idx[0]))
            elif r < prob:
                vn = hb.array("int", idx)
                if rng.random() < 0.3 and len(idx) >= 2:
                    key = list(range(len(idx)))
                    rng.shuffle(key)
                    hb.env[hb.heap[vn]["name"]] = [idx[key.index(j)] for j in range(len(idx))]
                    # items var[key] give back idx in order
                    op["qubits"] = ref(hb.item(vn, key))
                elif rng.random() < 0.2:
                    op["qubits"] = ref(hb.item(vn, list(range(len(idx))), slc=[None, None, None]))
                else:
                    op["qubits"] = ref(vn)
            elif r < prob + 0.05:
                op["qubits"] = [ref(expr(hb, "int", j)) if rng.random() < 0.7 else j for j in idx]
                nested = nested or any(isinstance(x, dict) for x in op["qubits"])
        elif k in ("phase_shift", "phase_shift_index"):
            op["phi"] = maybe(hb, "float", op["phi"], prob)
            if k == "phase_shift_index":
                op["targets"] = [maybe(hb, "int", j, prob * 0.7) for j in op.get("targets", [])]
        elif k in ("enable_eom", "modify_eom"):
            op["amp_on"] = maybe(hb, "float", op["amp_on"], prob)
            op["det_on"] = maybe(hb, "float", op["det_on"], prob)
            op["opt_off"] = maybe(hb, "float", op.get("opt_off", 0.0), prob * 0.4)
        elif k == "add_eom":
            op["duration"] = maybe(hb, "int", op["duration"], prob)
            op["phase"] = maybe(hb, "float", op["phase"], prob)
            op["post"] = maybe(hb, "float", op.get("post", 0.0), prob * 0.5)
        elif k == "declare":
            it = op.get("initial_target")
            if it and rng.random() < 0.03:
                op["initial_target"] = ref(expr(hb, "int", 0))
        ops.append(op)
    if mappable and rng.random() < 0.7:
        # "all qubits of the register" decided at build time: an untargeted
        # phase shift carrying a variable, after a channel of its basis exists
        decl = [(j, next((c for c in base["device"]["channels"] if c["id"] == o["channel_id"]), None))
                for j, o in enumerate(ops) if o["op"] == "declare"]
        decl = [(j, c) for j, c in decl if c is not None]
        for _ in range(rng.choice([1, 1, 2])):
            if not decl:
                break
            j, spec = rng.choice(decl)
            stop = next((k for k, o in enumerate(ops) if o["op"] == "measure"), len(ops))
            pos = rng.randint(min(j + 1, stop), stop) if stop > j else len(ops)
            kind = rng.choice(["phase_shift", "phase_shift", "phase_shift_index"])
            ops.insert(pos, dict(op=kind, phi=ref(expr(hb, "float", rng.choice([0.5, 1.0, -0.75, 3.25]))),
                                 targets=[], basis=BASIS_OF[spec["kind"]]))
    return hb, ops, nested


def variant_env(rng, hb: HB, env0, mode):
    env = copy.deepcopy(env0)
    names = list(env)
    if mode == "same" or not names:
        return env
    if mode == "scaled":
        for n in names:
            vd = next(v for v in hb.vars if v["name"] == n)
            f = rng.choice([1, 1, 2, 1.5, 0.5])
            if vd["dtype"] == "int":
                cv = lambda x: int(x * f) if rng.random() < 0.7 else int(x) + rng.choice([0, 1, 4, -1])
            else:
                cv = lambda x: float(x) * f if rng.random() < 0.7 else float(x) + rng.choice([0.0, 0.125, -0.25])
            env[n] = [cv(x) for x in env[n]] if isinstance(env[n], list) else cv(env[n])
        return env
    if mode == "missing":
        env.pop(rng.choice(names))
    elif mode == "extra":
        env["zz_unknown"] = 1.0
    elif mode == "size":
        n = rng.choice(names)
        env[n] = (env[n] + [env[n][0]]) if isinstance(env[n], list) else [env[n], env[n]]
    elif mode == "floats":
        for n in names:
            vd = next(v for v in hb.vars if v["name"] == n)
            if vd["dtype"] == "int":
                env[n] = [float(x) + 0.75 for x in env[n]] if isinstance(env[n], list) else float(env[n]) + 0.75
            else:
                env[n] = [int(x) for x in env[n]] if isinstance(env[n], list) else int(env[n])
    elif mode == "bad":
        n = rng.choice(names)
        bad = rng.choice([0, -4, -1.5, 3000])
        env[n] = [bad for _ in env[n]] if isinstance(env[n], list) else bad
    return env


def env_list(rng, env, shuffle):
    items = [[n, v] for n, v in env.items()]
    if shuffle:
        rng.shuffle(items)
    return items


def gen_case(rng: random.Random, tier: str):
    n_ops = rng.randint(3, 14) if tier == "quick" else rng.randint(3, 30)
    focus = rng.choice([None, None, "local", "local", "eom", "phase", "conflict"])
    base = seqgen.gen_case(rng, n_ops=n_ops, invalid_rate=0.04, query_rate=0.0, xy=False, focus=focus, slm=False)
    # keep (mostly) the calls that succeed on the concrete sequence, so that
    # most templates build; a few failing ones stay in
    from harness import seqimpl
    import warnings as _w

    with _w.catch_warnings():
        _w.simplefilter("ignore")
        tr = seqimpl.run_case(base)["trace"]
    base["ops"] = [op for op, t in zip(base["ops"], tr[:-1]) if t[0][0] == 0 or rng.random() < 0.12]
    mappable = None
    if rng.random() < 0.25:
        ids = list(base["register"]["ids"])
        extra = [f"x{j}" for j in range(rng.choice([0, 1, 1, 2, 2]))]
        declared = ids + extra
        ntraps = 2 * len(declared) + rng.choice([0, 1, 3])
        traps = [[10.0 * (j % 4), 10.0 * (j // 4)] for j in range(ntraps)]
        mappable = dict(traps=traps, declared=declared, n_base=len(ids))
        # a negative index counts from the end of the DECLARED ids in a template
        # with a mappable register and from the end of the chosen ids in a
        # concrete one: not comparable, so indices are made non-negative here
        nb = len(ids)
        for o in base["ops"]:
            if o["op"] == "target_index":
                o["qubits"] = [j % nb if -nb <= j < 0 else j for j in o["qubits"]]
            if o["op"] == "phase_shift_index":
                o["targets"] = [j % nb if -nb <= j < 0 else j for j in o.get("targets", [])]
        # detuning maps live on the first traps of the layout
        base["maps"] = [m[: len(ids)] for m in base.get("maps", [])]
        base["register"] = dict(ids=declared, coords=[[10.0 * j, 0.0] for j in range(len(declared))])
    prob = rng.choice([0.0, 0.25, 0.5, 0.5, 0.8])
    hb, ops, nested = parametrize(rng, base, prob, mappable=mappable is not None)
    if rng.random() < 0.04 and hb.vars:
        # a variable that belongs to another Sequence
        v = rng.choice(hb.vars)
        if v["size"] is None:
            v["foreign"] = True
    env0 = hb.env
    builds = []
    nb = rng.randint(1, 4)
    modes = ["same"] + [rng.choice(["same", "scaled", "scaled", "missing", "extra", "size", "floats", "bad"])
                        for _ in range(nb - 1)]
    if rng.random() < 0.3:
        rng.shuffle(modes)
    for m in modes:
        env = variant_env(rng, hb, env0, m)
        q = None
        if mappable:
            dec = mappable["declared"]
            nbase = len(dec)
            r = rng.random()
            nb0 = mappable["n_base"]
            if r < 0.4 or nb0 == nbase:
                n = nbase if r < 0.75 else rng.randint(1, nbase)
            elif r < 0.85:
                n = rng.randint(nb0, nbase - 1)  # a strict subset that covers the ids in use
            else:
                n = rng.randint(1, nbase)
            chosen = dec[:n]
            if rng.random() < 0.08:
                chosen = rng.sample(dec, n)  # maybe not a prefix
            traps = rng.sample(range(len(mappable["traps"])), n)
            if rng.random() < 0.05 and n >= 2:
                traps[1] = traps[0]
            if rng.random() < 0.04:
                traps[0] = len(mappable["traps"])
            pairs = [[qid, t] for qid, t in zip(chosen, traps)]
            if rng.random() < 0.5:
                rng.shuffle(pairs)
            if rng.random() < 0.03:
                pairs.append(["ghost", 0])
            q = pairs
            if rng.random() < 0.03:
                q = None
        elif rng.random() < 0.02:
            q = [[base["register"]["ids"][0], 0]]
        builds.append(dict(env=env_list(rng, env, rng.random() < 0.3), qubits=q, mode=m))
    # continued use of the template after its builds
    ext_ops, ext_build = [], None
    if rng.random() < 0.6:
        decl = {}
        for o in ops:
            if o["op"] == "declare":
                spec = next((c for c in base["device"]["channels"] if c["id"] == o["channel_id"]), None)
                if spec is not None:
                    decl[o["name"]] = spec
        allq = list(base["register"]["ids"])
        for _ in range(rng.randint(1, 4)):
            if not decl:
                break
            name = rng.choice(list(decl))
            spec = decl[name]
            basis = {"Rydberg": "ground-rydberg", "Raman": "digital", "Microwave": "XY"}[spec["kind"]]
            r = rng.random()
            if r < 0.4 and spec["addressing"] == "Local":
                ext_ops.append(dict(op="target", qubits=[rng.choice(allq)], channel=name))
            elif r < 0.75:
                k = rng.randint(1, len(allq))
                ext_ops.append(dict(op="phase_shift", phi=rng.choice([0.5, 1.0, -0.75]),
                                    targets=rng.sample(allq, k), basis=basis))
            elif r < 0.85 and spec["addressing"] == "Local":
                ext_ops.append(dict(op="target_index", qubits=[rng.randrange(len(allq))], channel=name))
            else:
                ext_ops.append(dict(op="delay", duration=rng.choice([16, 40, 100]), channel=name, at_rest=False))
        q = None
        if mappable:
            dec = mappable["declared"]
            q = [[qid, t] for qid, t in zip(dec, rng.sample(range(len(mappable["traps"])), len(dec)))]
        ext_build = dict(env=env_list(rng, env0, False), qubits=q)
    find = []
    if mappable:
        dec = mappable["declared"]
        perm = list(dec)
        rng.shuffle(perm)
        find.append(perm)  # a visiting order over ALL declared qubits
        find.append([rng.choice(dec) for _ in range(rng.randint(1, 5))])
        if len(dec) > 1:
            find.append(rng.sample(dec, len(dec) - 1))
        if rng.random() < 0.3:
            find.append(dec[:1] + ["ghost"])
        if rng.random() < 0.3:
            find.append([])
    return dict(
        find=find,
        ext_ops=ext_ops, ext_build=ext_build,
        device=base["device"], register=base["register"], maps=base.get("maps", []),
        mappable=mappable, vars=hb.vars, heap=hb.heap, ops=ops, builds=builds,
        nested=nested,
    )
