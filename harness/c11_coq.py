"""C11 - emission of Coq terms (Model.EmuCheck.echeck) and of the cases file."""
from __future__ import annotations

from harness.common import coq_Z, coq_bool, coq_float, coq_list

HEADER = """From Coq Require Import ZArith List Bool.
From Coq Require Import Uint63 FloatOps SpecFloat PrimFloat.
From PV Require Import Model.Base Model.Emu Model.EmuHist Model.EmuCheck.
Import ListNotations.
Open Scope Z_scope.
"""


def zl(xs) -> str:
    return coq_list(coq_Z(x) for x in xs)


def fl(xs) -> str:
    return coq_list(coq_float(float(x)) for x in xs)


def opt(x, f) -> str:
    return "None" if x is None else "(Some %s)" % f(x)


def sum_l(s: str) -> str:
    return "(inl %s)" % s


def sum_r(code: int) -> str:
    return "(inr %s)" % coq_Z(code)


def evspec(ev) -> str:
    t = ev[0]
    if t == "Full":
        return "EvFull"
    if t == "Minimal":
        return "EvMinimal"
    if t == "float":
        return "(EvFloat %s)" % coq_float(ev[1])
    if t == "list":
        return "(EvList %s)" % fl(ev[1])
    raise ValueError(ev)


def detimes(d) -> str:
    if d[0] == "Full":
        return "DFull"
    return "(DSeq %s)" % fl(d[1])


def check_term(c) -> str:
    k = c["c"]
    if k == "weights":
        impl = sum_l(zl(c["impl"])) if c["status"] == "ok" else sum_r(c["impl"])
        return "(CWeights %s %s %d%%nat %s %s %s %s)" % (
            coq_Z(c["meas"]), coq_Z(c["d"]), c["n"], coq_bool(c["matching"]),
            coq_Z(c["unit"]), zl(c["probs"]), impl,
        )
    if k == "bitprobs":
        impl = (
            sum_l(coq_list("(%s, %s)" % (coq_Z(a), coq_Z(b)) for a, b in c["impl"]))
            if c["status"] == "ok" else sum_r(c["impl"])
        )
        return "(CBitprobs %s %d%%nat %s %s %s %s %s %s)" % (
            coq_Z(c["d"]), c["n"], zl(c["eig"]), opt(c["one"], coq_Z),
            coq_Z(c["cutoff"]), coq_Z(c["unit"]), zl(c["probs"]), impl,
        )
    if k == "sample_legacy":
        return "(CSampleLegacy %d%%nat %s %s %s %s %s %s)" % (
            c["n"], fl(c["weights"]), fl(c["us"]), coq_float(c["eps"]), coq_float(c["eps_p"]),
            fl(c["flips"]), zl(c["impl"]),
        )
    if k == "sample_v2":
        return "(CSampleV2 %d%%nat %s %s %s %s %s %s %s)" % (
            c["n"], zl(c["keys"]), fl(c["probs"]), fl(c["us"]), coq_float(c["pfp"]),
            coq_float(c["pfn"]), fl(c["flips"]), zl(c["impl"]),
        )
    if k == "eval_legacy":
        impl = sum_l(fl(c["impl"])) if c["status"] == "ok" else sum_r(c["impl"])
        return "(CEvalLegacy %s %s %s %s %s)" % (
            coq_float(c["rate"]), coq_Z(c["T"]), evspec(c["ev"]), impl, fl(c.get("labels", [])),
        )
    if k == "eval_v2":
        impl = sum_l(fl(c["impl"])) if c["status"] == "ok" else sum_r(c["impl"])
        return "(CEvalV2 %s %s %s %s %s)" % (
            coq_float(c["rate"]), coq_Z(c["T"]), opt(c["default"], fl), fl(c["extra"]), impl,
        )
    if k == "multinomial":
        return "(CMultinomial %s %s %s)" % (fl(c["probs"]), fl(c["us"]), zl(c["impl"]))
    if k == "hist":
        ops = []
        for o in c["ops"]:
            if o[0] == "set":
                ops.append("(HSetConfig {| h_spam := %s; h_eta := %s |} %s)" % (coq_bool(o[1]), coq_float(o[2]), fl(o[3])))
            else:
                ops.append("(HRun %s)" % coq_list(fl(r) for r in o[1]))
        obs = coq_list(coq_list(coq_bool(b) for b in row) for row in c["observed"])
        return "(CHist %d%%nat %s %s)" % (c["n"], coq_list(ops), obs)
    if k == "index":
        impl = sum_l(coq_Z(c["impl"])) if c["status"] == "ok" else sum_r(c["impl"])
        return "(CIndex %s %s %s %s)" % (coq_float(c["t"]), coq_float(c["tol"]), fl(c["times"]), impl)
    if k == "config":
        return "(CConfig %s %s %s)" % (detimes(c["d"]), coq_Z(c["first"]), coq_Z(c["second"]))
    raise ValueError(k)


def case_term(checks) -> str:
    return coq_list(check_term(c) for c in checks)


def cases_file(items) -> str:
    out = [HEADER]
    for i, it in enumerate(items):
        out.append(f"Definition case_{i} : list echeck := {it}.")
    pairs = coq_list(f"(run_case case_{i}, SB true)" for i in range(len(items)))
    out.append(f"Definition all_pairs : list (sv * sv) := {pairs}.")
    out.append("Definition bad : list Z := Eval vm_compute in mismatches all_pairs.")
    out.append("Eval vm_compute in bad.")
    allc = coq_list(f"case_{i}" for i in range(len(items)))
    out.append(
        "Eval vm_compute in map (fun i => (i, first_bad 0 (nth (Z.to_nat i) %s []))) bad." % allc
    )
    return "\n".join(out) + "\n"
