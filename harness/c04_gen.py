"""C04 - seeded generator of sequence-building programs over the whole public
building API: every operation, waveform kind, protocol, optional argument at
default / non-default / omitted, positional / keyword call styles, variable
expressions; built-in and virtual devices; concrete, layout-based, 3D and
mappable registers; EOM, DMM, SLM, magnetic field, measurement.

The generator steps a concrete shadow sequence (arguments evaluated under the
first assignment) so that the programs it emits are mostly valid."""
from __future__ import annotations

import json
import math
import random
import warnings

import numpy as np

from harness import c04_impl as impl
from harness import seqgen

PROTOCOLS = ["min-delay", "no-delay", "wait-for-all"]
STYLES = ["pos", "kw", "mix"]
OBJ_STYLES = ["pos", "pos", "pos", "mix", "mix", "mix", "kw"]
NICE = [0.0, 0.125, 0.25, 0.5, 1.0, 1.5, 2.0, 3.0, 4.0, 6.0]
PHASES = [0.0, 0.5, 1.0, math.pi, -0.75, 7.5, 2 * math.pi, 3.25, -10.0, 6.0, -6.5]


def concretize(o):
    from pulser.parametrized import Parametrized

    if isinstance(o, Parametrized):
        r = o.build()
        if hasattr(r, "as_array"):
            a = r.as_array(detach=True)
            return a.tolist() if a.ndim and a.size != 1 else (a.item() if a.size == 1 else a.tolist())
        return r
    if isinstance(o, np.ndarray) and o.dtype == object:
        return [concretize(x) for x in o.tolist()]
    if isinstance(o, (list, tuple)):
        return type(o)(concretize(x) for x in o)
    return o


class SetupRejected(Exception):
    pass


class Gen:
    def __init__(self, rng: random.Random, tier: str):
        self.rng = rng
        self.tier = tier

    # ---------------------------------------------------------------- setup
    def gen_layout(self):
        r = self.rng
        k = r.choice(["square", "tri", "coords"])
        if k == "square":
            return dict(k="square", rows=r.choice([2, 3]), cols=r.choice([2, 3]), spacing=r.choice([5.0, 6.0, 7.5]))
        if k == "tri":
            return dict(k="tri", n=r.choice([4, 6, 9]), spacing=r.choice([5.0, 6.0]))
        n = r.randint(4, 8)
        pts = [[6.0 * (i % 3) + r.choice([0.0, 0.25]), 6.0 * (i // 3) + r.choice([0.0, 0.5])] for i in range(n)]
        return dict(k="coords", coords=pts, slug=r.choice([None, "my-layout"]))

    def gen_setup(self):
        r = self.rng
        dk = r.choice(["DigitalAnalogDevice", "DigitalAnalogDevice", "AnalogDevice", "MockDevice", "MockDevice", "virtual", "virtual", "virtual"])
        if dk == "virtual":
            spec = seqgen.gen_device(r, xy=r.random() < 0.2, focus=r.choice([None, "eom", "local"]))
            if not spec.get("dmms") and r.random() < 0.85:
                spec["dmms"] = [dict(clock_period=r.choice([1, 4]), min_duration=r.choice([1, 16]), max_duration=10**8,
                                     mod_bandwidth=None, bottom_detuning=r.choice([None, -20.0]), total_bottom_detuning=None)]
            spec["slm"] = bool(spec.get("dmms")) and r.random() < 0.6
            # keep timing parameters friendly: this property is not about scheduling corner cases
            for c in spec["channels"]:
                c["max_duration"] = 10**8
            spec["max_sequence_duration"] = None
            dev = dict(kind="virtual", spec=spec)
        else:
            dev = dict(kind="builtin", name=dk)
        rk = r.choice(["plain", "plain", "layout", "layout", "mappable", "mappable", "3d"])
        if dk == "AnalogDevice" and rk in ("plain", "3d"):
            rk = "layout"
        if rk == "3d" and dk not in ("MockDevice",):
            rk = "plain"
        if dk == "virtual" and rk == "3d":
            rk = "plain"
        n = r.choice([1, 2, 3, 4])
        ids = [f"q{i}" for i in range(n)]
        if r.random() < 0.3:
            r.shuffle(ids)
        if r.random() < 0.15:
            ids = [r.choice(["atom", "a b", "Q", "x_1", "q"]) + str(i) for i in range(n)]
        elif r.random() < 0.06:
            ids[r.randrange(n)] = ""  # the empty string is a valid (falsy) qubit id
        elif rk != "mappable" and r.random() < 0.35:
            # integer ids, as Register.square / from_coordinates produce them (0 is a
            # valid, falsy id); the abstract representation stringifies them in the
            # register only, which the comparison allows for
            ids = list(range(n))
            if r.random() < 0.3:
                r.shuffle(ids)
        reg: dict
        qubits = None
        if rk in ("layout", "mappable"):
            lay = self.gen_layout()
            L = impl.build_layout(lay)
            ntr = L.number_of_traps
            n = max(1, min(n, ntr // 2))
            ids = ids[:n]
            traps = r.sample(range(ntr), n)
            if rk == "layout":
                reg = dict(kind="plain", layout=lay, traps=traps, ids=ids)
            else:
                reg = dict(kind="mappable", layout=lay, ids=ids)
                qubits = {q: int(t) for q, t in zip(ids, traps)}
                if r.random() < 0.3 and n > 1:
                    # only a prefix of the qubits is mapped
                    qubits = {q: qubits[q] for q in ids[: r.randint(1, n)]}
        elif rk == "3d":
            reg = dict(kind="3d", ids=ids, coords=[[6.0 * i, 0.0, 3.0 * (i % 2)] for i in range(n)])
        else:
            reg = dict(kind="plain", ids=ids, coords=[[6.0 * i + r.choice([0.0, 0.5]), r.choice([0.0, 1.0, -2.5])] for i in range(n)])
        return dev, reg, qubits

    # ---------------------------------------------------------------- values
    def declare_vars(self, case, param_rate):
        r = self.rng
        self.vars = {}
        if r.random() > param_rate:
            return []
        ops = []
        pool = [
            ("a", "float", None, [r.choice(NICE[1:])]),
            ("b", "float", 3, [r.choice(NICE[1:]) for _ in range(3)]),
            ("n", "int", None, [r.choice([16, 20, 32, 100])]),
            ("m", "int", 2, [r.choice([0, 1]), r.choice([16, 52])]),
            ("ph", "float", 1, [r.choice(PHASES)]),
        ]
        r.shuffle(pool)
        for name, dt, size, val in pool[: r.randint(1, len(pool))]:
            ops.append(dict(op="declare_var", name=name, dtype=dt, size=size))
            self.vars[name] = dict(dtype=dt, size=size or 1, scalar=size is None, val=val)
        return ops

    def std_env(self, asg=None):
        """standalone Variables carrying the values of an assignment"""
        from pulser.parametrized import Variable

        env = {}
        for name, v in self.vars.items():
            var = Variable(name, int if v["dtype"] == "int" else float, v["size"])
            var._assign((asg or {}).get(name, v["val"]))
            env[name] = var[0] if v["scalar"] else var
        return env

    def value_of(self, x):
        with warnings.catch_warnings():
            warnings.simplefilter("ignore")
            return concretize(impl.ev(x, self.env0))

    def scalar_atoms(self, dtype):
        out = []
        for name, v in self.vars.items():
            if v["dtype"] != dtype:
                continue
            if v["scalar"]:
                out.append({"var": name})
            elif v["size"] == 1:
                if self.rng.random() < self.p_whole_var:
                    out.append({"var": name})
                out.append({"item": [name, 0]})
                out.append({"item": [name, -1]})
            else:
                for i in range(v["size"]):
                    out.append({"item": [name, i]})
                out.append({"item": [name, -1]})
        return out

    def expr(self, dtype, depth=0):
        r = self.rng
        atoms = self.scalar_atoms(dtype)
        if not atoms:
            return None
        a = r.choice(atoms)
        if depth >= 2 or r.random() < 0.3:
            return a
        if dtype == "int":
            c = r.choice([1, 2, 4, 16])
            k = r.choice(["add", "radd", "mul", "rmul", "sub", "floordiv", "abs", "neg", "mod", "pow", "nest"])
        else:
            c = r.choice([0.5, 2.0, 1.0, 3, 0.25])
            k = r.choice(["add", "radd", "mul", "rmul", "sub", "rsub", "truediv", "rtruediv", "pow", "mod", "neg", "abs",
                          "sqrt", "exp", "log2", "log", "sin", "cos", "tan", "tanh", "ceil", "floor", "floordiv",
                          "nest", "nest", "np.sqrt", "round"])
        sub = self.expr(dtype, depth + 1) if k == "nest" or r.random() < 0.35 else a
        if k == "nest":
            other = self.expr(dtype, depth + 1)
            return {"bin": [r.choice(["add", "mul", "sub"]), sub, other]}
        if k in ("radd", "rmul", "rsub", "rtruediv"):
            return {"bin": [k[1:], c, sub]}
        if k in ("add", "mul", "sub", "truediv", "pow", "mod", "floordiv"):
            return {"bin": [k, sub, c]}
        return {"un": [k, sub]}

    def num(self, dtype, ok, literal, p=None):
        """an expression of the given dtype whose value under the first
        assignment satisfies ok, or the literal"""
        r = self.rng
        p = self.p_expr if p is None else p
        if self.vars and r.random() < p:
            for _ in range(8):
                x = self.expr(dtype)
                if x is None:
                    break
                if "round" in str(x) and r.random() > self.p_round:
                    continue
                try:
                    v = self.value_of(x)
                    v = v[0] if isinstance(v, list) and len(v) == 1 else v
                    if isinstance(v, (int, float, np.integer, np.floating)) and math.isfinite(float(v)) and ok(v):
                        return x
                except Exception:  # noqa: BLE001
                    pass
        return literal

    def duration(self, ch):
        r = self.rng
        c, m = ch.clock_period, ch.min_duration
        lit = c * r.randint(max(1, -(-m // c)), max(1, -(-m // c)) + 40)
        if r.random() < 0.15:
            lit = r.randint(m, m + 200)
        return self.num("int", lambda v: float(v) == int(v) and m <= v <= 2000 and int(v) % c == 0, int(lit))

    def amp(self, ch):
        mx = ch.max_amp if ch.max_amp is not None else 10.0
        lit = min(self.rng.choice(NICE), mx)
        return self.num("float", lambda v: 0 <= v <= mx, lit)

    def det(self, ch):
        mx = ch.max_abs_detuning if ch.max_abs_detuning is not None else 20.0
        lit = self.rng.choice(NICE) * self.rng.choice([1, -1])
        lit = max(-mx, min(mx, lit))
        return self.num("float", lambda v: abs(v) <= mx, lit)

    def phase(self):
        lit = self.rng.choice(PHASES)
        if self.rng.random() < 0.2:
            lit = int(self.rng.choice([0, 1, 3]))
        return self.num("float", lambda v: True, lit)

    def array_val(self, n, lo, hi):
        """list of floats, or an array-valued variable expression"""
        r = self.rng
        lit = [min(hi, max(lo, r.choice(NICE))) for _ in range(n)]
        if self.vars and r.random() < self.p_expr:
            cands = [nm for nm, v in self.vars.items() if v["dtype"] == "float" and v["size"] == n and not v["scalar"]
                     and all(lo <= x <= hi for x in v["val"])]
            if cands:
                nm = r.choice(cands)
                return r.choice([{"var": nm}, {"item": [nm, {"slice": [None, None, None]}]},
                                 {"item": [nm, list(range(n))]}])
            cands = [nm for nm, v in self.vars.items() if v["dtype"] == "float" and v["size"] > n >= 2
                     and all(lo <= x <= hi for x in v["val"])]
            if cands:
                nm = r.choice(cands)
                sz = self.vars[nm]["size"]
                ks = [{"slice": [None, n, None]}, {"slice": [sz - n, None, None]}, {"slice": [-n, None, 1]},
                      list(range(n)), [-(i + 1) for i in range(n)], {"slice": [n - 1, None, -1]}]
                return {"item": [nm, r.choice(ks)]}
        return lit

    # ---------------------------------------------------------------- waveforms / pulses
    def wf(self, ch, d_lit, is_amp, allow_composite=True, const_d=None):
        """waveform spec of (concrete) duration d_lit; const_d: the duration
        expression to use for the duration field (evaluates to d_lit)"""
        r = self.rng
        mx = (ch.max_amp if ch.max_amp is not None else 10.0) if is_amp else (ch.max_abs_detuning if ch.max_abs_detuning is not None else 20.0)
        val = (lambda: self.amp(ch)) if is_amp else (lambda: self.det(ch))
        d = const_d if const_d is not None else d_lit
        kinds = ["const", "const", "ramp", "custom", "interp", "interp"]
        if is_amp and d_lit >= 8:
            kinds += ["blackman", "kaiser"]
        if allow_composite and d_lit >= 4 and const_d is None:
            kinds += ["composite"]
        k = r.choice(kinds)
        st = r.choice(OBJ_STYLES)
        if k == "const":
            return dict(k="const", d=d, v=val(), style=st)
        if k == "ramp":
            return dict(k="ramp", d=d, a=val(), b=val(), style=st)
        if k == "blackman":
            area = self.num("float", lambda v: 0 < v <= 0.4 * mx * d_lit / 1000.0, min(1.0, 0.3 * mx * d_lit / 1000.0))
            return dict(k="blackman", d=d, area=area, style=st)
        if k == "kaiser":
            area = self.num("float", lambda v: 0 < v <= 0.3 * mx * d_lit / 1000.0, min(1.0, 0.2 * mx * d_lit / 1000.0))
            beta = r.choice([None, None, 14.0, 5.0, self.num("float", lambda v: 1 <= v <= 20, 8.0)])
            return dict(k="kaiser", d=d, area=area, beta=beta, style=st)
        if k == "custom":
            if d_lit <= 64 and const_d is None:
                lo = 0.0 if is_amp else -min(mx, 6.0)
                samples = [min(mx, max(lo, r.choice(NICE) * (1 if is_amp else r.choice([1, -1])))) for _ in range(d_lit)]
                return dict(k="custom", samples=r.choice([samples, {"tuple": samples}, {"nparray": samples}]), style=st)
            return dict(k="const", d=d, v=val(), style=st)
        if k == "interp":
            n = r.choice([2, 3, 3, 4])
            lo = 0.0 if is_amp else -min(mx, 6.0)
            values = self.array_val(n, lo, min(mx, 6.0))
            times = None
            if r.random() < 0.4:
                ts = sorted(r.sample([0.1, 0.2, 0.35, 0.5, 0.6, 0.8, 0.9], n - 2))
                times = [0.0] + ts + [1.0]
            if d_lit < 4:
                return dict(k="const", d=d, v=val(), style=st)
            w = dict(k="interp", d=d, values=values, times=times, style=st)
            # optional arguments at non-default values: the interpolator and its keyword arguments
            rr = r.random()
            if rr < 0.3:
                w["interp"] = "interp1d"
                kinds_ok = ["linear", "nearest", "slinear"] + (["quadratic"] if n >= 3 else []) + (["cubic"] if n >= 4 else [])
                if r.random() < 0.6:
                    w["ikw"] = {"kind": r.choice(kinds_ok)}
            elif rr < 0.36:
                w["interp"] = "PchipInterpolator"  # the default, given explicitly
            return w
        d1 = r.randint(1, d_lit - 1)
        return dict(k="composite", parts=[self.wf(ch, d1, is_amp, False), self.wf(ch, d_lit - d1, is_amp, False)])

    def pulse(self, ch):
        r = self.rng
        dx = self.duration(ch)
        dl = int(self.value_of(dx)) if isinstance(dx, dict) else dx
        same_d = dx if isinstance(dx, dict) else None
        post = r.choice([None, None, 0.0, self.phase()])
        st = r.choice(OBJ_STYLES)
        k = r.choice(["pulse", "pulse", "const_amp", "const_det", "const_pulse", "const_pulse", "arb_phase", "max"])
        if k == "pulse":
            return dict(k="pulse", amp=self.wf(ch, dl, True, const_d=same_d), det=self.wf(ch, dl, False, const_d=same_d),
                        phase=self.phase(), post=post, style=st)
        if k == "const_amp":
            return dict(k="const_amp", amp=self.amp(ch), det=self.wf(ch, dl, False, const_d=same_d), phase=self.phase(), post=post, style=st)
        if k == "const_det":
            return dict(k="const_det", amp=self.wf(ch, dl, True, const_d=same_d), det=self.det(ch), phase=self.phase(), post=post, style=st)
        if k == "const_pulse":
            return dict(k="const_pulse", d=dx, amp=self.amp(ch), det=self.det(ch), phase=self.phase(), post=post, style=st)
        if k == "arb_phase":
            pw = r.choice([
                dict(k="const", d=same_d or dl, v=self.phase(), style=st),
                dict(k="ramp", d=same_d or dl, a=r.choice([0.0, 1.0]), b=r.choice([0.0, -1.0, 2.0]), style=st),
                dict(k="interp", d=same_d or dl, values=[0.0, 1.0, 0.5], times=None, style=st) if dl >= 4 else dict(k="const", d=same_d or dl, v=0.5, style=st),
            ])
            return dict(k="arb_phase", amp=self.wf(ch, dl, True, const_d=same_d), phase_wf=pw, post=post, style=st)
        # from_max_val: the duration follows from the arguments
        mx = ch.max_amp if ch.max_amp is not None else 10.0
        kind = r.choice(["blackman_max", "kaiser_max"])
        mv = self.num("float", lambda v: 0.5 <= v <= mx, min(mx, 4.0))
        area = self.num("float", lambda v: 0.2 <= v <= 1.5, r.choice([0.5, 1.0, math.pi / 4]))
        w = dict(k=kind, mx=mv, area=area, style=st)
        if kind == "kaiser_max":
            w["beta"] = r.choice([None, 14.0, 6.0])
        return dict(k="const_det", amp=w, det=self.det(ch), phase=self.phase(), post=post, style=st)

    # ---------------------------------------------------------------- program
    def gen_case(self):
        r = self.rng
        dev, reg, qubits = self.gen_setup()
        param_rate = 0.65
        self.p_expr = r.choice([0.25, 0.5, 0.8])
        self.p_round = 0.04
        case = dict(device=dev, register=reg, qubits=qubits, maps=[], ops=[], assignments=None, ser=None)
        ops = self.declare_vars(case, param_rate)
        self.env0 = self.std_env()
        n_ops = r.randint(3, 14) if self.tier == "quick" else r.randint(3, 30)

        with warnings.catch_warnings():
            warnings.simplefilter("ignore")
            D = impl.build_device(dev)
            creg_spec = reg
            if reg["kind"] == "mappable":
                full = dict(zip(reg["ids"], r.sample(range(impl.build_layout(reg["layout"]).number_of_traps), len(reg["ids"]))))
                full.update(qubits)
                # the shadow register holds the mapped qubits only, as build() does
                creg_spec = dict(kind="plain", layout=reg["layout"], traps=[qubits[q] for q in reg["ids"] if q in qubits],
                                 ids=[q for q in reg["ids"] if q in qubits])
            try:
                creg = impl.build_register(creg_spec)
                cseq = impl.Sequence(creg, D)
                impl.Sequence(impl.build_register(reg), D)
            except Exception as e:  # noqa: BLE001
                raise SetupRejected(str(e))
            qids_all = list(reg["ids"])
            qids = list(creg.qubit_ids)
            # detuning maps
            if D.dmm_channels:
                for _ in range(2):
                    if reg["kind"] == "mappable":
                        L = impl.build_layout(reg["layout"])
                        w = {str(t): r.choice([0.25, 0.5, 1.0]) for t in r.sample(range(L.number_of_traps), min(3, L.number_of_traps))}
                    else:
                        w = {q: r.choice([0.0, 0.25, 0.5, 1.0]) for q in qids}
                        if sum(w.values()) == 0:
                            w[qids[0]] = 1.0
                        w = [[q, x] for q, x in w.items()]
                    case["maps"].append(w)
            cmaps = []
            for m in case["maps"]:
                if reg["kind"] == "mappable":
                    cmaps.append(creg.layout.define_detuning_map({int(t): x for t, x in m.items()}))
                else:
                    cmaps.append(creg.define_detuning_map({q: x for q, x in m}))

            names_pool = ["ch0", "ch1", "ch2", "ch3", "a", "b", "my channel"]
            tries = 0
            measured = False
            while len(ops) < n_ops + len(self.vars) and tries < 12 * n_ops:
                tries += 1
                op = self.gen_op(cseq, D, qids, names_pool, case, len(ops), n_ops)
                if op is None:
                    continue
                # run on the shadow; keep the op only if it is accepted there.  A
                # refused call may leave traces in the shadow: rebuild it then.
                env_c = self.env0
                try:
                    exec_concrete(cseq, op, env_c, cmaps)
                except Exception:  # noqa: BLE001
                    cseq = impl.Sequence(impl.build_register(creg_spec), D)
                    for o in ops:
                        exec_concrete(cseq, o, env_c, cmaps)
                    continue
                ops.append(op)
                if op["op"] == "measure":
                    break
        # mostly drop variables no call refers to
        used = json.dumps([o for o in ops if o["op"] != "declare_var"])
        ops = [o for o in ops if o["op"] != "declare_var" or ('"%s"' % o["name"]) in used or r.random() < 0.1]
        self.vars = {n: v for n, v in self.vars.items() if any(o["op"] == "declare_var" and o["name"] == n for o in ops)}
        case["ops"] = ops
        # assignments: the first is the one the shadow used
        asgs = [{n: list(v["val"]) for n, v in self.vars.items()}]
        for _ in range(2):
            a = {}
            for n, v in self.vars.items():
                if v["dtype"] == "int":
                    a[n] = [r.choice([x, x, x + 4, 16, 0, 1]) if i or v["size"] == 1 else r.choice([x, 0, 1]) for i, x in enumerate(v["val"])]
                else:
                    a[n] = [r.choice([x, x * 0.5, x + 0.25, 0.0, 1.0]) for x in v["val"]]
            asgs.append(a)
        case["assignments"] = asgs if self.vars else [{}]
        case["ser"] = dict(
            defaults=bool(self.vars or qubits) and r.random() < 0.4,
            seq_name=r.choice(["pulser-exported", "my seq", ""]),
        )
        return case

    def gen_op(self, cseq, D, qids, names_pool, case, i, n_ops):
        r = self.rng
        decl = dict(cseq.declared_channels)
        user = {n: c for n, c in decl.items() if not n.startswith("dmm_")}
        avail = [c for c in cseq.available_channels if not c.startswith("dmm_")]
        mappable = case["register"]["kind"] == "mappable"
        if (not user or r.random() < 0.12) and avail:
            cid = r.choice(avail)
            ch = D.channels[cid]
            name = r.choice([n for n in names_pool if n not in decl] or ["zz%d" % i])
            it = None
            if ch.addressing == "Local" and r.random() < 0.6:
                k = 1 if ch.max_targets == 1 else r.randint(1, min(len(qids), ch.max_targets or len(qids)))
                sel = r.sample(qids, k)
                it = r.choice([sel, sel[0], {"tuple": sel}, {"set": sel}]) if k == 1 else r.choice([sel, {"tuple": sel}])
                falsy = [q for q in qids if not q]
                if falsy and r.random() < 0.5:
                    it = falsy[0]  # a valid id that is falsy (0, "")
            return dict(op="declare", name=name, channel_id=cid, initial_target=it, style=r.choice(STYLES))
        kinds = ["add"] * 8 + ["delay"] * 2 + ["target"] * 3 + ["align"] * 2 + ["phase"] * 3 + ["eom"] * 4 + ["dmm"] * 3 + ["slm", "mag", "measure"]
        kind = r.choice(kinds)
        if i >= n_ops - 1 and r.random() < 0.5:
            kind = "measure"
        if kind == "measure":
            if r.random() < 0.7 and i < n_ops - 2:
                return None
            bases = list(cseq._basis_ref) or ["ground-rydberg"]
            return dict(op="measure", basis=r.choice([None] + bases), style=r.choice(["pos", "kw"]))
        if kind == "mag":
            if cseq._in_xy and cseq._empty_sequence or (not cseq._in_ising and not user):
                return dict(op="set_mag", bx=r.choice([0.0, 1.0]), by=r.choice([0.0, 2.5]), bz=r.choice([30.0, 10.0]))
            return None
        if kind == "slm":
            if not D.supports_slm_mask or mappable or not D.dmm_channels:
                return None
            k = r.randint(1, len(qids))
            sel = r.sample(qids, k)
            return dict(op="config_slm", qubits=r.choice([sel, {"tuple": sel}, {"set": sel}]),
                        dmm_id=r.choice([None, None, "dmm_0"] + list(D.dmm_channels)), style=r.choice(["pos", "mix"]))
        if kind == "dmm":
            dm = [n for n in decl if n.startswith("dmm_")]
            if (not dm or r.random() < 0.2) and case["maps"] and D.dmm_channels and not cseq._in_xy:
                return dict(op="config_detmap", map=r.randrange(len(case["maps"])), dmm_id=r.choice(list(D.dmm_channels)), style=r.choice(STYLES))
            if not dm:
                return None
            name = r.choice(dm)
            ch = decl[name]
            dx = self.duration(ch)
            dl = int(self.value_of(dx)) if isinstance(dx, dict) else dx
            lo = ch.bottom_detuning if ch.bottom_detuning is not None else -20.0
            lo = max(lo, -20.0)
            v1 = self.num("float", lambda v: lo <= -abs(v) <= 0, r.choice([-1.0, -4.0, 0.0, lo / 2]))
            if isinstance(v1, dict):
                v1 = {"un": ["neg", {"un": ["abs", v1]}]}
            w = r.choice([
                dict(k="const", d=dx, v=v1, style=r.choice(STYLES)),
                dict(k="ramp", d=dx, a=r.choice([-4.0, 0.0]), b=r.choice([lo / 2, -1.0, 0.0]), style=r.choice(STYLES)),
            ])
            if r.random() < 0.2:
                return dict(op="delay", duration=dx, channel=name, at_rest=r.choice([None, True, False]), style=r.choice(STYLES))
            return dict(op="add_dmm", wf=w, channel=name, protocol=r.choice([None, None] + PROTOCOLS), style=r.choice(STYLES))
        if not user:
            return None
        name = r.choice(list(user))
        ch = user[name]
        in_eom = cseq.is_in_eom_mode(name)
        local = ch.addressing == "Local"
        has_target = bool(cseq._schedule[name].slots)
        if local and not has_target:
            kind = "target"
        elif in_eom and r.random() < 0.6:
            kind = "eom"
        elif ch.supports_eom() and not in_eom and r.random() < 0.2:
            kind = "eom"
        if kind == "eom":
            if not ch.supports_eom():
                kind = "add"
            elif not in_eom:
                mx = ch.max_amp if ch.max_amp is not None else 10.0
                return dict(op="enable_eom", channel=name,
                            amp_on=self.num("float", lambda v: 0.5 <= v <= min(mx, 8.0), r.choice([1.0, 2.0, 4.0])),
                            det_on=self.num("float", lambda v: abs(v) <= 4.0, r.choice([0.0, -1.0, 2.0])),
                            opt_off=r.choice([None, None, 0.0, -5.0, 3.0, self.num("float", lambda v: abs(v) < 10, -2.0)]),
                            correct=r.choice([None, None, True, False]), style=r.choice(STYLES))
            else:
                k2 = r.choice(["pulse", "pulse", "pulse", "modify", "disable", "delay"])
                if k2 == "pulse":
                    return dict(op="add_eom", channel=name, duration=self.duration(ch), phase=self.phase(),
                                post=r.choice([None, None, 0.0, self.phase()]),
                                protocol=r.choice([None, None] + PROTOCOLS), correct=r.choice([None, None, True, False]),
                                style=r.choice(STYLES))
                if k2 == "modify":
                    return dict(op="modify_eom", channel=name, amp_on=r.choice([1.0, 2.0, 4.0]), det_on=r.choice([0.0, -1.0]),
                                opt_off=r.choice([None, 0.0, -5.0]), correct=r.choice([None, True, False]), style=r.choice(STYLES))
                if k2 == "disable":
                    return dict(op="disable_eom", channel=name, correct=r.choice([None, None, True, False]), style=r.choice(STYLES))
                kind = "delay"
        if in_eom and kind in ("add", "target"):
            kind = r.choice(["delay", "phase", "align"])
        if kind == "add":
            return dict(op="add", pulse=self.pulse(ch), channel=name, protocol=r.choice([None, None, None] + PROTOCOLS), style=r.choice(STYLES))
        if kind == "delay":
            du = 0 if r.random() < 0.08 else self.duration(ch)
            return dict(op="delay", duration=du, channel=name, at_rest=r.choice([None, None, True, False]), style=r.choice(STYLES))
        if kind == "target":
            if not local:
                return None
            k = 1 if ch.max_targets == 1 else r.randint(1, min(len(qids), ch.max_targets or len(qids)))
            sel = r.sample(qids, k)
            all_ids = case["register"]["ids"]
            if r.random() < 0.5:
                idx = [all_ids.index(q) for q in sel] if not mappable else [qids.index(q) for q in sel]
                if k == 1:
                    q = r.choice([idx[0], idx, self.num("int", lambda v: int(v) == idx[0], idx[0], p=0.5)])
                else:
                    q = r.choice([idx, {"tuple": idx}])
                    nm = next((nm for nm, v in self.vars.items() if v["dtype"] == "int" and v["size"] == k and not v["scalar"] and list(v["val"]) == idx), None)
                    if nm:
                        q = {"var": nm}
                return dict(op="target_index", qubits=q, channel=name, style=r.choice(STYLES))
            q = r.choice([sel, sel[0], {"tuple": sel}, {"set": sel}]) if k == 1 else r.choice([sel, {"tuple": sel}])
            return dict(op="target", qubits=q, channel=name, style=r.choice(STYLES))
        if kind == "align":
            names = list(decl)
            if len(names) < 2:
                return None
            chs = r.sample(names, r.randint(2, min(3, len(names))))
            return dict(op="align", channels=chs, at_rest=r.choice([None, None, True, False]))
        if kind == "phase":
            bases = list(cseq._basis_ref) or ["digital"]
            basis = r.choice([None] + bases)
            if basis is None and "digital" not in cseq._basis_ref:
                basis = r.choice(bases)
            k = r.randint(0, len(qids))
            sel = r.sample(qids, k)
            if r.random() < 0.4:
                all_ids = case["register"]["ids"]
                idx = [qids.index(q) for q in sel]
                idx = [self.num("int", lambda v, j=j: int(v) == j, j, p=0.3) for j in idx]
                return dict(op="phase_shift_index", phi=self.phase(), targets=idx, basis=basis)
            return dict(op="phase_shift", phi=self.phase(), targets=sel, basis=basis,
                        phi_kw=(k == 0 and r.random() < self.p_phi_kw))
        return None

    p_phi_kw = 0.15
    p_whole_var = 0.1


def uses_var(o) -> bool:
    s = str(o)
    return "'var'" in s or "'item'" in s


def exec_concrete(cseq, op, env, cmaps):
    """the op on the shadow sequence, with every parametrized argument built"""
    if op["op"] == "declare_var":
        return
    impl._CONC = concretize
    try:
        impl.exec_op(cseq, op, env, cmaps)
    finally:
        impl._CONC = None


def gen_case(rng: random.Random, tier: str):
    for _ in range(50):
        try:
            return Gen(rng, tier).gen_case()
        except SetupRejected:
            continue
    raise RuntimeError("generator: no acceptable setup in 50 tries")
