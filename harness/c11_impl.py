"""C11 - implementation runner: builds real Pulser sequences from neutral
JSON cases, runs the legacy QutipEmulator and the V2 backend of the tree under
verification, and returns everything the oracle and the Coq model need.

Nothing here decides a verdict; see harness/c11_oracle.py for the property
oracle and harness/c11_coq.py for the Coq emission."""
from __future__ import annotations

import warnings
from collections import Counter

import numpy as np
import qutip

warnings.filterwarnings("ignore")

from pulser import NoiseModel, Pulse, Register, Sequence  # noqa: E402
from pulser.backend.default_observables import StateResult  # noqa: E402
from pulser.devices import MockDevice  # noqa: E402
from pulser.waveforms import BlackmanWaveform, ConstantWaveform, RampWaveform  # noqa: E402
from pulser_simulation import (  # noqa: E402
    QutipBackendV2,
    QutipConfig,
    QutipEmulator,
    SimConfig,
)
from pulser_simulation.qutip_result import QutipResult  # noqa: E402
from pulser_simulation.qutip_state import QutipState  # noqa: E402

STATES_RANK = ("u", "d", "r", "g", "h", "x")
STATE_CODE = {s: i for i, s in enumerate(STATES_RANK)}
BASIS_STATES = {"ground-rydberg": ("r", "g"), "digital": ("g", "h"), "XY": ("u", "d")}
ONE_STATE = {"ground-rydberg": "r", "digital": "h", "XY": "d"}
MEAS_CODE = {"ground-rydberg": 0, "digital": 1, "XY": 2}
CHANNEL_BASIS = {
    "rydberg_global": "ground-rydberg",
    "rydberg_local": "ground-rydberg",
    "raman_global": "digital",
    "raman_local": "digital",
    "mw_global": "XY",
}
ERR_CODE = {
    "ValueError": 1,
    "TypeError": 2,
    "RuntimeError": 3,
    "IndexError": 4,
    "NotImplementedError": 5,
    "KeyError": 6,
    "ZeroDivisionError": 7,
}


def err_code(e: BaseException) -> int:
    return ERR_CODE.get(type(e).__name__, 8)


# ------------------------------------------------------------------ sequences
def coords_of(case):
    if "coords" in case:
        return [tuple(c) for c in case["coords"]]
    sp = case.get("spacing", 8.0)
    return [(i * sp, 0.0) for i in range(case["n"])]


def qids_of(case):
    return case.get("qids") or ["q%d" % i for i in range(case["n"])]


def build_waveform(w):
    k = w["k"]
    if k == "const":
        return ConstantWaveform(w["dur"], w["v"])
    if k == "ramp":
        return RampWaveform(w["dur"], w["a"], w["b"])
    if k == "blackman":
        return BlackmanWaveform(w["dur"], w["area"])
    raise ValueError(k)


def build_sequence(case) -> Sequence:
    reg = Register(dict(zip(qids_of(case), coords_of(case))))
    device = MockDevice
    if case.get("device_noise"):
        # a custom device that carries a default noise model
        import dataclasses

        device = dataclasses.replace(MockDevice, default_noise_model=NoiseModel(**case["device_noise"]))
    seq = Sequence(reg, device)
    for ch in case["channels"]:
        if ch["id"].endswith("_local"):
            seq.declare_channel(ch["name"], ch["id"], initial_target=qids_of(case)[ch.get("target", 0)])
        else:
            seq.declare_channel(ch["name"], ch["id"])
    for op in case["ops"]:
        k = op["op"]
        if k == "pulse":
            if "amp_wf" in op:
                p = Pulse(build_waveform(op["amp_wf"]), build_waveform(op["det_wf"]), op["phase"])
            else:
                p = Pulse.ConstantPulse(op["dur"], op["amp"], op["det"], op["phase"])
            seq.add(p, op["ch"], protocol=op.get("protocol", "no-delay"))
        elif k == "delay":
            seq.delay(op["dur"], op["ch"])
        elif k == "target":
            seq.target(qids_of(case)[op["q"]], op["ch"])
        elif k == "align":
            seq.align(*op["chs"])
        else:
            raise ValueError(k)
    if case.get("meas"):
        seq.measure(case["meas"])
    return seq


def noise_model_of(case) -> NoiseModel:
    nz = dict(case.get("noise") or {})
    if "eff_noise_opers" in nz:
        nz["eff_noise_opers"] = tuple(qutip.Qobj(np.array(m, dtype=complex)) for m in nz["eff_noise_opers"])
        nz["eff_noise_rates"] = tuple(nz["eff_noise_rates"])
    return NoiseModel(**nz)


def effective_noise(case):
    """the noise the backend must emulate: the device's default noise model
    when the configuration prefers it (and the device has one), else the
    configuration's own"""
    if case.get("device_noise") and case.get("prefer"):
        return dict(case["device_noise"])
    return case.get("noise")


def used_bases(case) -> set:
    """bases of the channels that carry a non-zero drive (a channel whose
    samples are all zero addresses nothing: SequenceSamples.used_bases)"""
    ch_basis = {c["name"]: CHANNEL_BASIS[c["id"]] for c in case["channels"]}
    out = set()
    for op in case["ops"]:
        if op["op"] == "pulse":
            if "amp_wf" not in op and op["amp"] == 0.0 and op["det"] == 0.0:
                continue
            out.add(ch_basis[op["ch"]])
    return out


def expected_eigenbasis(case) -> list[str]:
    """The documented convention: the union of the eigenstates of the bases the
    sequence addresses, ordered by decreasing energy (u, d, r, g, h), with the
    leakage state x last."""
    ub = used_bases(case)
    xy = any(CHANNEL_BASIS[c["id"]] == "XY" for c in case["channels"])
    if not ub:
        ub = {"XY" if xy else "ground-rydberg"}
    st = set()
    for b in ub:
        st |= set(BASIS_STATES[b])
    if (case.get("noise") or {}).get("with_leakage"):
        st.add("x")
    return [s for s in STATES_RANK if s in st]


def expected_meas_basis(case) -> str:
    if case.get("meas"):
        return case["meas"]
    ub = used_bases(case)
    xy = any(CHANNEL_BASIS[c["id"]] == "XY" for c in case["channels"])
    if len(ub) > 1:
        return "digital"
    if len(ub) == 1:
        return next(iter(ub))
    return "XY" if xy else "ground-rydberg"


# ------------------------------------------------------------------ numbers
def exact_ints(arrs: list) -> tuple[int, list[list[int]]]:
    """floats (dyadic rationals) -> integer numerators over one common
    power-of-two denominator; exact."""
    ratios = [[float(x).as_integer_ratio() for x in a] for a in arrs]
    unit = 1
    for a in ratios:
        for _, d in a:
            if d > unit:
                unit = d
    return unit, [[n * (unit // d) for n, d in a] for a in ratios]


def probs_of_state(state: qutip.Qobj) -> np.ndarray:
    """exactly the expression of QutipResult._weights / QutipState.probabilities"""
    if not state.isket:
        return np.abs(state.diag())
    return (np.abs(state.full()) ** 2).flatten()


def seeded(seed):
    np.random.seed(seed % (2**32))


# ------------------------------------------------------------------ running
def eval_arg_legacy(case, T):
    ev = case.get("eval") or {"t": "Full"}
    if ev["t"] in ("Full", "Minimal"):
        return ev["t"]
    if ev["t"] == "float":
        return float(ev["v"])
    if ev["t"] == "list":
        tf = T / 1000
        return [r * tf for r in ev["rel"]]
    if ev["t"] == "abs":
        return list(ev["us"])
    raise ValueError(ev)


def run_legacy(case, seq=None):
    """-> dict(ok, err, emu, results, T, times, states) ; never raises for
    implementation exceptions (they are data)"""
    out = dict(ok=False, err=None, exc=None)
    try:
        seq = seq or build_sequence(case)
        T = seq.get_duration()
        out["T"] = T
        cfg = SimConfig.from_noise_model(noise_model_of(case))
        emu = QutipEmulator.from_sequence(
            seq,
            sampling_rate=case.get("rate", 1.0),
            config=cfg,
            evaluation_times=eval_arg_legacy(case, T),
        )
        out["emu"] = emu
        out["times"] = np.array(emu._eval_times_array)
        if case.get("init"):
            emu.set_initial_state(init_state_of(case, case["init"].get("form", "qobj")))
        seeded(case.get("seed", 0))
        res = emu.run()
        out["results"] = res
        out["kind"] = type(res).__name__
        if out["kind"] == "CoherentResults":
            out["states"] = list(res.states)
            out["labels"] = [r.evaluation_time for r in res]
        out["ok"] = True
    except Exception as e:  # noqa: BLE001
        out["err"] = type(e).__name__
        out["exc"] = e
        out["msg"] = str(e)[:300]
    return out


def init_vector(case) -> np.ndarray:
    return np.array([complex(a, b) for a, b in case["init"]["amps"]])


def init_state_of(case, form: str):
    """the user-supplied initial state in one of the accepted forms: a plain
    array, an (un-normalised) Qobj, a normalised Qobj"""
    v = init_vector(case)
    if form == "array":
        return v
    n = case["n"]
    d = len(expected_eigenbasis(case))
    q = qutip.Qobj(v.reshape(-1, 1), dims=[[d] * n, [1] * n])
    return q.unit() if form == "qobj_unit" else q


def v2_config_of(case):
    v2 = case.get("v2") or {}
    kw = {}
    if case.get("init"):
        kw["initial_state"] = QutipState(init_state_of(case, "qobj"), eigenstates=tuple(expected_eigenbasis(case)))
    default = v2.get("default", None)
    if default is not None:
        kw["default_evaluation_times"] = default if default == "Full" else list(default)
    obs_times = v2.get("obs_times")
    obs = StateResult(evaluation_times=list(obs_times)) if obs_times is not None else StateResult()
    return QutipConfig(
        observables=[obs],
        sampling_rate=case.get("rate", 1.0),
        noise_model=noise_model_of(case),
        prefer_device_noise_model=bool(case.get("prefer", False)),
        **kw,
    )


def run_v2(case, seq=None):
    out = dict(ok=False, err=None, exc=None, stage=None)
    try:
        seq = seq or build_sequence(case)
        out["T"] = seq.get_duration()
        out["stage"] = "config"
        cfg = v2_config_of(case)
        out["stage"] = "init"
        b = QutipBackendV2(seq, config=cfg)
        out["backend"] = b
        out["times"] = np.array(b._sim_obj._eval_times_array)
        out["stage"] = "run"
        seeded(case.get("seed", 0))
        res = b.run()
        out["results"] = res
        ts = res.get_result_times("state")
        out["labels"] = [float(t) for t in ts]
        out["states"] = [res.get_result("state", t) for t in ts]
        out["ok"] = True
    except Exception as e:  # noqa: BLE001
        out["err"] = type(e).__name__
        out["exc"] = e
        out["msg"] = str(e)[:300]
    return out


def qobj_dm(q: qutip.Qobj) -> np.ndarray:
    a = q.full()
    if q.isket:
        return a @ a.conj().T
    return a


# ------------------------------------------------------------------ pure calls
def call_weights(n, meas, matching, state: qutip.Qobj):
    """QutipResult._weights on an arbitrary state -> ('ok', weights) | ('err', code)"""
    try:
        r = QutipResult(tuple("a%d" % i for i in range(n)), meas, state, matching)
        w = r._weights()
        return "ok", np.array(w, dtype=float), r
    except Exception as e:  # noqa: BLE001
        return "err", err_code(e), None


def call_bitprobs(state: qutip.Qobj, eig, one_state, cutoff):
    try:
        s = QutipState(state, eigenstates=tuple(eig))
        kw = {} if cutoff is None else {"cutoff": cutoff}
        bp = s.bitstring_probabilities(one_state=one_state, **kw)
        return "ok", [(k, float(v)) for k, v in bp.items()], s
    except Exception as e:  # noqa: BLE001
        return "err", err_code(e), None


def draws_legacy(seed, n_samples, n, counts_total=None):
    """the uniforms Result.get_samples / CoherentResults.sample_state will
    draw from the global numpy stream seeded with [seed]"""
    seeded(seed)
    us = np.random.rand(n_samples)
    fl = np.random.uniform(size=(n_samples, n))
    return us, fl


def counter_dense(c: Counter, n: int) -> list[int]:
    out = [0] * (2**n)
    for k, v in c.items():
        if len(k) != n or set(k) - {"0", "1"}:
            return [-1]
        out[int(k, 2)] += int(v)
    return out
