"""Emit Coq terms (Model.Seq ops, environments, expected traces) for
sequence-building cases."""
from __future__ import annotations

from harness.common import coq_Z, coq_bool, coq_float, coq_list, coq_opt, sv
from harness.seqimpl import BASIS_CODE, Coder

KIND_BASIS = {"Rydberg": 0, "Raman": 1, "Microwave": 2}


def craw_of_channel(spec) -> str:
    local = spec["addressing"] == "Local"
    eom = spec.get("eom")
    eom_t = (
        "None"
        if eom is None
        else "(Some (%s, %s))"
        % (coq_float(eom["mod_bandwidth"]), coq_opt(eom.get("custom_buffer_time"), coq_Z))
    )
    return (
        "{| r_local := %s; r_basis := %s; r_dmm := false; r_clock := %s; r_min := %s;"
        " r_max := %s; r_bw := %s; r_cpj := %s; r_minret := %s; r_fixret := %s;"
        " r_maxtg := %s; r_maxamp := %s; r_maxdet := %s; r_minavg := %s;"
        " r_bottom := None; r_totbottom := None; r_eom := %s |}"
        % (
            coq_bool(local),
            KIND_BASIS[spec["kind"]],
            coq_Z(spec.get("clock_period", 1)),
            coq_Z(spec.get("min_duration", 1)),
            coq_opt(spec.get("max_duration", 10**8), coq_Z),
            coq_opt(spec.get("mod_bandwidth"), coq_float),
            coq_opt(spec.get("custom_phase_jump_time"), coq_Z),
            coq_Z(spec.get("min_retarget_interval", 0) if local else 0),
            coq_Z(spec.get("fixed_retarget_t", 0) if local else 0),
            coq_opt(spec.get("max_targets") if local else None, coq_Z),
            coq_opt(spec.get("max_amp"), coq_float),
            coq_opt(spec.get("max_abs_detuning"), coq_float),
            coq_float(spec.get("min_avg_amp", 0)),
            eom_t,
        )
    )


def craw_of_dmm(spec) -> str:
    return (
        "{| r_local := false; r_basis := 0; r_dmm := true; r_clock := %s; r_min := %s;"
        " r_max := %s; r_bw := %s; r_cpj := %s; r_minret := 0; r_fixret := 0;"
        " r_maxtg := None; r_maxamp := (Some zero); r_maxdet := None; r_minavg := zero;"
        " r_bottom := %s; r_totbottom := %s; r_eom := None |}"
        % (
            coq_Z(spec.get("clock_period", 1)),
            coq_Z(spec.get("min_duration", 1)),
            coq_opt(spec.get("max_duration", 10**8), coq_Z),
            coq_opt(spec.get("mod_bandwidth"), coq_float),
            coq_opt(spec.get("custom_phase_jump_time"), coq_Z),
            coq_opt(spec.get("bottom_detuning"), coq_float),
            coq_opt(spec.get("total_bottom_detuning"), coq_float),
        )
    )


def senv_term(case, cd: Coder, run) -> str:
    dev = case["device"]
    chans = coq_list(
        "(%d, mk_ccfg %s)" % (i, craw_of_channel(c)) for i, c in enumerate(dev["channels"])
    )
    dmms = coq_list(
        "(%d, mk_ccfg %s)" % (1000 + 100 * i, craw_of_dmm(d))
        for i, d in enumerate(dev.get("dmms", []))
    )
    device = (
        "{| d_chans := %s; d_dmms := %s; d_maxseq := %s; d_reusable := %s; d_slm := %s |}"
        % (
            chans,
            dmms,
            coq_opt(dev.get("max_sequence_duration"), coq_Z),
            coq_bool(dev.get("reusable", False)),
            coq_bool(dev.get("slm", False)),
        )
    )
    qids = coq_list(str(i) for i in range(len(case["register"]["ids"])))
    maps = coq_list(
        "(%d, (%s, %s))" % (i, coq_float(m[0]), coq_float(m[1]))
        for i, m in enumerate(run["maps"])
    )
    oracle = coq_list(
        "(%s, %s, (%s, %s))" % (coq_Z(n), coq_Z(ti), coq_Z(a), coq_Z(b))
        for n, ti, a, b in run["oracle"]
    )
    return "{| v_dev := %s; v_qids := %s; v_maps := %s; v_oracle := %s |}" % (
        device,
        qids,
        maps,
        oracle,
    )


def upulse_term(d) -> str:
    if d is None:
        # the implementation could not even build the pulse; never reached by
        # the generators (pulses are built before the sequence call)
        raise ValueError("missing pulse descriptor")
    return (
        "{| u_dur := %s; u_ext := %s; u_phase := %s; u_post := %s; u_amax := %s;"
        " u_dabsmax := %s; u_avg := %s; u_dmax := %s; u_dmin := %s; u_dd := %s;"
        " u_sum := %s |}"
        % (
            coq_Z(d["dur"]),
            coq_bool(d["ext"]),
            coq_float(d["phase"]),
            coq_float(d["post"]),
            coq_float(d["amax"]),
            coq_float(d["dabsmax"]),
            coq_float(d["avg"]),
            coq_float(d["dmax"]),
            coq_float(d["dmin"]),
            coq_bool(d["dd"]),
            coq_list(coq_float(x) for x in d["sum"]),
        )
    )


def qlist(cd: Coder, qs) -> str:
    if not isinstance(qs, (list, tuple)):
        qs = [qs]  # a bare qubit id stands for the one-element collection
    return coq_list(coq_Z(cd.q(q)) for q in qs)


def op_term(cd: Coder, op, desc) -> str:
    k = op["op"]
    nm = lambda key="channel": coq_Z(cd.name(op[key]))  # noqa: E731
    if k == "declare":
        it = op.get("initial_target")
        return "(ODeclare %s %s %s)" % (
            coq_Z(cd.name(op["name"])),
            coq_Z(cd.chan_id(op["channel_id"])),
            "None" if it is None else "(Some %s)" % qlist(cd, it),
        )
    if k == "target":
        return "(OTarget %s %s)" % (qlist(cd, op["qubits"]), nm())
    if k == "target_index":
        return "(OTargetIndex %s %s)" % (coq_list(coq_Z(i) for i in op["qubits"]), nm())
    if k == "delay":
        return "(ODelay %s %s %s)" % (coq_Z(op["duration"]), nm(), coq_bool(op.get("at_rest", False)))
    if k == "add":
        return "(OAdd %s %s %s)" % (upulse_term(desc.get("pulse")), nm(), coq_Z(op.get("protocol", 0)))
    if k == "estimate":
        return "(QEstimate %s %s %s)" % (upulse_term(desc.get("pulse")), nm(), coq_Z(op.get("protocol", 0)))
    if k == "add_dmm":
        return "(OAddDmm %s %s %s)" % (upulse_term(desc.get("pulse")), nm(), coq_Z(op.get("protocol", 1)))
    if k == "align":
        return "(OAlign %s %s)" % (
            coq_list(coq_Z(cd.name(c)) for c in op["channels"]),
            coq_bool(op.get("at_rest", True)),
        )
    if k == "phase_shift":
        return "(OPhaseShift %s %s %s)" % (
            coq_float(op["phi"]),
            qlist(cd, op.get("targets", [])),
            coq_Z(cd.basis(op.get("basis", "digital"))),
        )
    if k == "phase_shift_index":
        return "(OPhaseShiftIndex %s %s %s)" % (
            coq_float(op["phi"]),
            coq_list(coq_Z(i) for i in op.get("targets", [])),
            coq_Z(cd.basis(op.get("basis", "digital"))),
        )
    if k in ("enable_eom", "modify_eom"):
        return "(%s %s %s %s %s %s %s)" % (
            "OEnableEom" if k == "enable_eom" else "OModifyEom",
            nm(),
            coq_float(op["amp_on"]),
            coq_float(op["det_on"]),
            coq_float(op.get("opt_off", 0.0)),
            coq_float(desc.get("det_off", op.get("opt_off", 0.0))),
            coq_bool(op.get("correct", False)),
        )
    if k == "disable_eom":
        return "(ODisableEom %s %s)" % (nm(), coq_bool(op.get("correct", False)))
    if k == "add_eom":
        return "(OAddEom %s %s %s %s %s %s)" % (
            nm(),
            coq_Z(op["duration"]),
            coq_float(op["phase"]),
            coq_float(op.get("post", 0.0)),
            coq_Z(op.get("protocol", 0)),
            coq_bool(op.get("correct", False)),
        )
    if k == "measure":
        return "(OMeasure %s)" % coq_Z(cd.basis(op.get("basis", "ground-rydberg")))
    if k == "config_detmap":
        return "(OConfigDetMap %s %s)" % (coq_Z(op["map"]), coq_Z(cd.dmm_id(op["dmm_id"])))
    if k == "set_mag":
        return "(OSetMag %s %s %s)" % (coq_float(op["bx"]), coq_float(op["by"]), coq_float(op["bz"]))
    if k == "q_duration":
        ch = op.get("channel")
        return "(QDuration %s %s)" % (
            "None" if ch is None else "(Some %s)" % coq_Z(cd.name(ch)),
            coq_bool(op.get("fall", False)),
        )
    if k == "q_phase_ref":
        return "(QPhaseRef %s %s)" % (coq_Z(cd.q(op["qubit"])), coq_Z(cd.basis(op.get("basis", "digital"))))
    if k == "q_in_eom":
        return "(QInEom %s)" % nm()
    if k == "q_available":
        return "QAvailable"
    raise ValueError(k)


HEADER = """From Coq Require Import ZArith List Bool.
From Coq Require Import Uint63 FloatOps SpecFloat PrimFloat.
From PV Require Import Model.Base Model.Sched Model.Chan Model.Seq Model.SeqSnap.
Import ListNotations.
Open Scope Z_scope.
"""


def case_terms(case, run):
    cd = run["coder"]
    # channel names must be coded in the order the implementation saw them,
    # which the Coder already did during the run
    env = senv_term(case, cd, run)
    ops = coq_list(op_term(cd, o, d) for o, d in zip(case["ops"], run["descs"]))
    exp = sv(run["trace"])
    return env, ops, exp


def cases_file(items) -> str:
    """items: list of (env, ops, expected)."""
    out = [HEADER]
    for i, it in enumerate(items):
        if it is None:
            continue
        env, ops, exp = it
        out.append(f"Definition env_{i} : senv := {env}.")
        out.append(f"Definition ops_{i} : list op := {ops}.")
        out.append(f"Definition exp_{i} : sv := {exp}.")
    pairs = coq_list(("(SL [], SL [])" if items[i] is None else f"(trace env_{i} ops_{i}, exp_{i})") for i in range(len(items)))
    out.append(f"Definition all_pairs : list (sv * sv) := {pairs}.")
    out.append("Definition bad : list Z := Eval vm_compute in mismatches all_pairs.")
    out.append("Eval vm_compute in bad.")
    out.append(
        "Eval vm_compute in map (fun i => match nth_error all_pairs (Z.to_nat i) with"
        " Some (a, b) => first_diff a b | None => -2 end) bad."
    )
    return "\n".join(out) + "\n"


def debug_file(env, ops, exp) -> str:
    return (
        HEADER
        + f"Definition env_0 : senv := {env}.\nDefinition ops_0 : list op := {ops}.\n"
        + f"Definition exp_0 : sv := {exp}.\n"
        + "Eval vm_compute in first_diff (trace env_0 ops_0) exp_0.\n"
        + "Eval vm_compute in (match trace env_0 ops_0, exp_0 with SL a, SL b =>"
        " let i := Z.to_nat (first_diff (SL a) (SL b)) in (nth_error a i, nth_error b i)"
        " | _, _ => (None, None) end).\n"
    )
