"""C12 - Coq terms for cases: inputs as Model.DevGeo records, expected
outputs as [sv]; the model is evaluated with vm_compute in cases_k.v."""
from __future__ import annotations

from harness.common import coq_Z, coq_bool, coq_float, coq_list, coq_opt, sv

HEADER = """From Coq Require Import ZArith List Bool.
From Coq Require Import Uint63 FloatOps SpecFloat PrimFloat.
From PV Require Import Model.Base Model.DevGeo.
Import ListNotations.
Open Scope Z_scope.
"""


def pt(p) -> str:
    return coq_list(coq_float(c) for c in p)


def pts(l) -> str:
    return coq_list(pt(p) for p in l)


def gdev(d: dict) -> str:
    return ("{| g_virtual := %s; g_dim := %s; g_min_dist := %s; g_max_atoms := %s; g_max_radial := %s;"
            " g_max_fill := %s; g_min_traps := %s; g_max_traps := %s |}" % (
                coq_bool(d["cls"] == "VirtualDevice"), coq_Z(d["dimensions"]),
                coq_float(float(d["min_atom_distance"])), coq_opt(d["max_atom_num"], coq_Z),
                coq_opt(d["max_radial_distance"], coq_Z), coq_float(d["max_layout_filling"]),
                coq_Z(d["min_layout_traps"]), coq_opt(d["max_layout_traps"], coq_Z)))


def glayout(is_layout: bool, dim, traps) -> str:
    return "{| l_is_layout := %s; l_dim := %s; l_traps := %s |}" % (coq_bool(is_layout), coq_Z(dim), pts(traps))


def greg(is_reg: bool, dim, p, layout_term) -> str:
    return "{| r_is_reg := %s; r_dim := %s; r_pts := %s; r_layout := %s |}" % (
        coq_bool(is_reg), coq_Z(dim), pts(p), layout_term)


def ival(v) -> str:
    if v is None:
        return "INone"
    if isinstance(v, bool):
        raise TypeError("bool parameter")
    if isinstance(v, int):
        return "(IInt %s)" % coq_Z(v)
    return "(IFlt %s)" % coq_float(v)


def dparams(p: dict) -> str:
    return ("{| p_virtual := %s; p_dim := %s; p_ryd := %s; p_min_dist := %s; p_max_atoms := %s;"
            " p_max_radial := %s; p_max_seq := %s; p_max_runs := %s; p_min_traps := %s; p_max_traps := %s;"
            " p_max_fill := %s; p_opt_fill := %s; p_slm := %s; p_n_dmm := %s |}" % (
                coq_bool(p["cls"] == "VirtualDevice"), coq_Z(p["dimensions"]), ival(p["rydberg_level"]),
                ival(p["min_atom_distance"]), ival(p["max_atom_num"]), ival(p["max_radial_distance"]),
                ival(p.get("max_sequence_duration")), ival(p.get("max_runs")), ival(p["min_layout_traps"]),
                ival(p["max_layout_traps"]), coq_float(p["max_layout_filling"]),
                coq_opt(p["optimal_layout_filling"], coq_float), coq_bool(p.get("supports_slm_mask", False)),
                coq_Z(p.get("n_dmm", 1))))


def item(case, run):
    """-> (model term : sv, expected term : sv)"""
    k = case["kind"]
    if k == "val":
        if not run["built"]:
            return "(SL [SZ 97])", sv([97])
        dv = gdev(case["device"])
        e = case["entry"]
        lay = "None" if run["traps"] is None else "(Some %s)" % glayout(True, run["ldim"], run["traps"])
        rg = greg(True, run["dim"], run["pts"], lay)
        if e in ("validate_register", "sequence"):
            m = f"sv_gres (validate_register {dv} {rg})"
        elif e == "validate_layout":
            m = f"sv_gres (validate_layout {dv} {glayout(True, run['ldim'], run['traps'])})"
        elif e == "mappable":
            m = f"sv_gres (validate_mappable {dv} {glayout(True, run['ldim'], run['traps'])} {coq_Z(run['n_ids'])})"
        elif e == "filling":
            m = f"sv_gres (validate_filling_reg {dv} {rg})"
        else:
            w = run["what"]
            if w == "register_as_layout":
                m = f"sv_gres (validate_layout {dv} {glayout(False, run['dim'], run['pts'])})"
            else:
                m = f"sv_gres (validate_register {dv} {greg(False, run['dim'], run['pts'], 'None')})"
        return m, sv(run["outcome"])
    if k == "hist":
        if not run["built"]:
            return "(SL [SZ 97])", sv([97])
        lay_t = glayout(True, run["ldim"], run["traps"])
        rg = greg(True, run["dim"], run["pts"], "(Some %s)" % lay_t)
        terms = []
        for st in case["steps"]:
            dv = gdev(case["devices"][st["dev"]])
            e = st["entry"]
            if e in ("validate_register", "sequence"):
                terms.append(f"sv_gres (validate_register {dv} reg_h)")
            elif e == "validate_layout":
                terms.append(f"sv_gres (validate_layout {dv} lay_h)")
            else:
                terms.append(f"sv_gres (validate_mappable {dv} lay_h {coq_Z(st['n_ids'])})")
        m = "(let lay_h := %s in let reg_h := %s in SL %s)" % (lay_t, rg, coq_list(terms))
        return m, sv(run["outcomes"])
    if k == "dev":
        return f"sv_dres (post_init {dparams(case['params'])})", sv(run["outcome"])
    if k in ("mc", "auto") and run.get("nodev"):
        return "(SL [SL [SZ 96]; SL [SZ 96]])", sv([[96], [96]])
    if k == "mc":
        dv = gdev(case["device"])
        sp = coq_opt(case["spacing"], coq_float)
        mc = f"(max_connectivity {dv} {coq_Z(case['n'])} {sp})"
        m = ("(let r := %s in SL [sv_mcres r; match r with MCOk p => sv_gres (validate_register %s "
             "{| r_is_reg := true; r_dim := 2; r_pts := p; r_layout := None |}) | _ => SL [SZ 50] end])" % (mc, dv))
        return m, sv([run["outcome"], run["validate"]])
    if k == "auto":
        d = case["device"]
        dv = gdev(d)
        g = ("(gen_traps %s %s %s %s %s %s %s)" % (
            pts(run["mesh"]), pts(run["seeds"]), coq_float(float(d["min_atom_distance"])),
            coq_float(d["max_layout_filling"]), coq_opt(d["optimal_layout_filling"], coq_float),
            coq_Z(d["min_layout_traps"]), coq_opt(d["max_layout_traps"], coq_Z)))
        if run["auto"] == "ok":
            rg = greg(True, 2, run["pts"], "(Some %s)" % glayout(True, 2, run["traps"]))
            v = f"sv_gres (validate_register {dv} {rg})"
        else:
            v = "SL [SZ 50]"
        return f"SL [sv_lgres {g}; {v}]", sv([run["gen"], run["validate"]])
    raise ValueError(k)


def cases_file(items) -> str:
    out = [HEADER]
    for i, (m, e) in enumerate(items):
        out.append(f"Definition mod_{i} : sv := {m}.")
        out.append(f"Definition exp_{i} : sv := {e}.")
    pairs = coq_list(f"(mod_{i}, exp_{i})" for i in range(len(items)))
    out.append(f"Definition all_pairs : list (sv * sv) := {pairs}.")
    out.append("Definition bad : list Z := Eval vm_compute in mismatches all_pairs.")
    out.append("Eval vm_compute in bad.")
    return "\n".join(out) + "\n"


def debug_file(m, e) -> str:
    return HEADER + f"Eval vm_compute in ({m}).\nEval vm_compute in ({e}).\n"
