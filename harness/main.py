from __future__ import annotations

import argparse
import importlib
import json
import os
import sys

from harness import common, framework


def main():
    ap = argparse.ArgumentParser()
    ap.add_argument("prop")
    ap.add_argument("--tier", default=os.environ.get("VERIF_TIER", "quick"))
    ap.add_argument("--replay")
    a = ap.parse_args()
    seed = int(os.environ.get("VERIF_SEED", "20260926"))
    mod = importlib.import_module("harness.props." + a.prop.lower())
    pc = mod.CHECK
    try:
        if a.replay:
            payload = json.loads(open(a.replay).read())
            sys.exit(pc.replay(payload))
        sys.exit(framework.run_check(pc, a.tier, seed))
    except common.Infra as e:
        print("INFRASTRUCTURE ERROR (not a verdict):", e, file=sys.stderr)
        sys.exit(2)


if __name__ == "__main__":
    main()
