from __future__ import annotations

import argparse
import importlib
import json
import os
import sys

from harness import common, framework


def main():
    ap = argparse.ArgumentParser()
    ap.add_argument("prop")
    ap.add_argument("--tier", default=os.environ.get("VERIF_TIER", "quick"))
    ap.add_argument("--replay")
    a = ap.parse_args()
    seed = int(os.environ.get("VERIF_SEED", "20260926"))
    try:
        mod = importlib.import_module("harness.props." + a.prop.lower())
    except common.Infra:
        raise
    except Exception as e:  # noqa: BLE001
        # the tree under verification (or the harness importing it) cannot even be
        # imported: nothing about the property is shown to hold any more
        import traceback

        tb = traceback.format_exc()
        if "/verif/harness" in tb.splitlines()[-3] if len(tb.splitlines()) > 3 else False:
            raise
        path = common.write_replay(a.prop, dict(property=a.prop, case=None, broken=["import of the tree under verification failed: " + repr(e)], traceback=tb[-3000:]))
        print(f"VIOLATION property={a.prop} replay={path} no-failing-input-found")
        sys.exit(1)
    pc = mod.CHECK
    try:
        if a.replay:
            payload = json.loads(open(a.replay).read())
            sys.exit(pc.replay(payload))
        sys.exit(framework.run_check(pc, a.tier, seed))
    except common.Infra as e:
        print("INFRASTRUCTURE ERROR (not a verdict):", e, file=sys.stderr)
        sys.exit(2)


if __name__ == "__main__":
    main()
