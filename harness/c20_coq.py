"""C20: Coq terms for cases (inputs for Model.ObsExec / Model.ObsTime and the
implementation's outputs), and the cases file."""
from __future__ import annotations

from harness.common import coq_Z, coq_bool, fhex, sv

HEADER = """From Coq Require Import ZArith List Bool.
From Coq Require Import Uint63 FloatOps SpecFloat PrimFloat.
From PV Require Import Model.Base Model.ObsLin Model.ObsRes Model.ObsTime Model.ObsExec.
Import ListNotations.
Open Scope Z_scope.
"""

CUTOFF = 1e-12


def cz(z):
    return "(%s, %s)" % (coq_Z(z[0]), coq_Z(z[1]))


def clist(v):
    return "[" + "; ".join(cz(z) for z in v) + "]"


def crows(rows):
    return "[" + "; ".join(clist(r) for r in rows) + "]"


def nat(k):
    return "%d%%nat" % k


def fl(x):
    return "(" + fhex(x) + ")"


def flist(xs):
    return "[" + "; ".join(fl(x) for x in xs) + "]"


def frows(rows):
    return "[" + "; ".join(flist(r) for r in rows) + "]"


def state_term(st):
    if st["type"] == "ket":
        return "(Ket C (vec_of_list %s))" % clist(st["rows"][0])
    return "(Dm C (mat_of_rows %s))" % crows(st["rows"])


def mat_term(rows):
    return "(mat_of_rows %s)" % crows(rows)


def coq_able_obs(case):
    D = case["d"] ** case["n"]
    return (case["state"]["type"] == "ket" and D <= 81) or D <= 27


TRIVIAL = ("(SL [])", "(SL [])")


def item_obs(case, run):
    if not run.get("ok") or not coq_able_obs(case):
        return TRIVIAL
    d, n = case["d"], case["n"]
    D = d ** n
    one = case["basis"].index(case["one"])
    s = state_term(case["state"])
    sden = coq_Z(case["state"]["den"])
    H = mat_term(case["H"]["rows"])
    hden = coq_Z(case["H"]["den"])
    tg = case["target"]
    checks = [
        "chk_occupation %s %s %s s %s %s" % (nat(d), nat(n), nat(one), sden, flist(run["occupation"])),
        "chk_correlation %s %s %s s %s %s" % (nat(d), nat(n), nat(one), sden, frows(run["correlation"])),
        "chk_expect %s H %s s %s %s %s" % (nat(D), hden, sden, fl(run["energy"][0]), fl(run["energy"][1])),
        "chk_m2 %s %s H %s s %s %s" % (nat(d), nat(n), hden, sden, fl(run["second_moment"])),
        "chk_var %s %s H %s s %s %s" % (nat(d), nat(n), hden, sden, fl(run["variance"])),
        "chk_fidelity %s %s %s s %s %s" % (nat(D), state_term(tg), coq_Z(tg["den"]), sden, fl(run["fidelity"])),
        "chk_expect %s %s %s s %s %s %s" % (nat(D), mat_term(case["op"]["rows"]), coq_Z(case["op"]["den"]), sden,
                                           fl(run["expectation"][0]), fl(run["expectation"][1])),
        "chk_bitprobs %s %s %s s %s %s %s" % (nat(d), nat(n), nat(one), sden, fl(CUTOFF),
                                            "[" + "; ".join("(%s, %s)" % (coq_Z(k), fl(v)) for k, v in run["probs"]) + "]"),
    ]
    model = "(let s := %s in let H := %s in SL [%s])" % (s, H, "; ".join("SB (%s)" % c for c in checks))
    exp = "(SL [%s])" % "; ".join("SB true" for _ in checks)
    return model, exp


def raw_ops(ops, basis):
    d = len(basis)

    def key(k):
        return "[" + "; ".join(nat(basis.index(c) if c in basis else d) for c in k) + "]"

    def qop(q):
        return "[" + "; ".join("(%s, %s)" % (key(k), cz(v)) for k, v in q.items()) + "]"

    def top(t):
        return "[" + "; ".join("(%s, [%s])" % (qop(q), "; ".join(coq_Z(i) for i in inds)) for q, inds in t) + "]"

    return "[" + "; ".join("(%s, %s)" % (cz(c), top(t)) for c, t in ops) + "]"


def item_alg(case, run):
    d, n = case["d"], case["n"]
    D = d ** n
    basis = case["basis"]
    dn = "%s %s" % (nat(d), nat(n))
    model = ["SZ (repr_outcome %s rawA)" % dn, "SZ (repr_outcome %s rawB)" % dn]
    exp = [sv(run["outA"]), sv(run["outB"])]
    if run.get("algebra") and D <= 64:
        dA, dB = case["denA"], case["denB"]
        z, zden = case["scalar"]["z"], case["scalar"]["den"]
        st = case["state"]
        ket = st["type"] == "ket"

        def chkm(term, den, key):
            return "SB (chk_matrix %s %s %s %s %s)" % (nat(D), term, coq_Z(den), frows(run[key]["re"]), frows(run[key]["im"]))

        model += [
            chkm("A", dA, "A"),
            chkm("B", dB, "B"),
            chkm("(x_madd (x_mscale (%s, 0) A) (x_mscale (%s, 0) B))" % (coq_Z(dB), coq_Z(dA)), dA * dB, "sum"),
            chkm("(x_mscale %s A)" % cz(z), zden * dA, "scaled"),
            chkm("(x_mmul %s A B)" % nat(D), dA * dB, "prod"),
            "SB (chk_state %s (x_apply %s A s) %s %s %s %s)" % (
                nat(D), nat(D), coq_Z(st["den"] * (dA if ket else dA * dA)), coq_bool(ket),
                frows(run["applied"]["re"]), frows(run["applied"]["im"])),
            "SB (chk_expect %s A %s s %s %s %s)" % (nat(D), coq_Z(dA), coq_Z(st["den"]), fl(run["expect"][0]), fl(run["expect"][1])),
        ]
        exp += ["(SB true)"] * 7
    amps = "[" + "; ".join(
        "([%s], %s)" % ("; ".join(nat(basis.index(c) if c in basis else d) for c in k), cz(v)) for k, v in case["amps"]) + "]"
    model.append("SZ (if validate_amps %s %s then 0 else 1)" % (nat(d), amps))
    exp.append(sv(run["amp_out"]))
    if run["amp_out"] == 0 and not case["bad_amps"] and D <= 256:
        model.append("SB (chk_vector %s (x_from_amps %s %s) %s %s %s)" % (
            nat(D), nat(d), amps, coq_Z(case["aden"]), flist(run["amp_vec"]["re"]), flist(run["amp_vec"]["im"])))
        exp.append("(SB true)")
    for k, lab in zip(case["idx"], run["labels"]):
        model.append("SL (map (fun x => SZ (Z.of_nat x)) (digs %s %s))" % (dn, nat(k)))
        exp.append(sv([int(x) for x in lab]))
    s = state_term(case["state"])
    m = "(let rawA := %s in let rawB := %s in let A := x_from_repr %s (cook_fullop rawA) in " \
        "let B := x_from_repr %s (cook_fullop rawB) in let s := %s in SL [%s])" % (
            raw_ops(case["opsA"], basis), raw_ops(case["opsB"], basis), dn, dn, s, "; ".join(model))
    return m, "(SL [%s])" % "; ".join(exp)


def opt_flist(x):
    return "None" if x is None else "(Some %s)" % flist(x)


def obs_term(owns):
    return "[" + "; ".join("(%d, %s)" % (i, opt_flist(o)) for i, o in enumerate(owns)) + "]"


def sv_times(stored):
    return "(SL [%s])" % "; ".join("(SL [%s])" % "; ".join("(SF %s)" % fhex(t) for t in ts) for ts in stored)


def item_times(case, run):
    if not run.get("setup"):
        return TRIVIAL
    dflt = None if case["dflt"] == "Full" else case["dflt"]
    model = "(run_store %s %s %s %s)" % (opt_flist(dflt), coq_Z(case["T"]), flist(case["ts"]),
                                       obs_term([o["own"] for o in case["obs"]]))
    exp = "(SL [SZ %s; %s])" % (coq_Z(run["status"]), sv_times(run["stored"]))
    return model, exp


def item_backend(case, run):
    if not run.get("ok"):
        return TRIVIAL
    T = run["T"]
    owns = [o["own"] for o in case["obs"]] + [run["own_state"]]
    fed = "(SL [%s])" % "; ".join("(SF %s)" % fhex(t) for t in run["fed"])
    model, exp = [], []
    if case["dflt"] == "Full":
        model.append("(run_pipeline_full %s %s %s)" % (fl(case.get("rate", 1.0)), coq_Z(T), obs_term(owns)))
        exp.append("(SL [%s; SL [SZ 0; %s]])" % (fed, sv_times(run["stored"])))
    else:
        model.append("(run_pipeline %s %s %s)" % (flist(case["dflt"]), coq_Z(T), obs_term(owns)))
        exp.append("(SL [%s; SL [SZ 0; %s]])" % (fed, sv_times(run["stored"])))
    d, n, one = run["d"], run["n"], run["one_idx"]
    D = d ** n
    for sn in run.get("snaps", []):
        s = "(Dm C (mat_of_rows %s))" % crows(sn["state"]) if sn["mixed"] else "(Ket C (vec_of_list %s))" % clist(sn["state"][0])
        sden = coq_Z(1 << 50)
        H = mat_term(sn["H"])
        hden = coq_Z(1 << 40)
        typ = sn["type"]
        v = sn["value"]
        if typ == "occupation":
            c = "chk_occupation %s %s %s s %s %s" % (nat(d), nat(n), nat(one), sden, flist(v))
        elif typ == "correlation":
            c = "chk_correlation %s %s %s s %s %s" % (nat(d), nat(n), nat(one), sden, frows(v))
        elif typ == "energy":
            c = "chk_expect %s H %s s %s %s %s" % (nat(D), hden, sden, fl(v[0]), fl(v[1]))
        elif typ == "second_moment":
            c = "chk_m2 %s %s H %s s %s %s" % (nat(d), nat(n), hden, sden, fl(v))
        elif typ == "variance":
            c = "chk_var %s %s H %s s %s %s" % (nat(d), nat(n), hden, sden, fl(v))
        elif typ == "fidelity":
            idx = 0
            for _ in range(n):
                idx = idx * d + one
            tv = [[1, 0] if k == idx else [0, 0] for k in range(D)]
            c = "chk_fidelity %s (Ket C (vec_of_list %s)) 1 s %s %s" % (nat(D), clist(tv), sden, fl(v))
        else:
            c = "chk_expect %s %s 2 s %s %s %s" % (nat(D), mat_term(sn["op"]), sden, fl(v[0]), fl(v[1]))
        model.append("(let s := %s in let H := %s in SB (%s))" % (s, H, c))
        exp.append("(SB true)")
    return "(SL [%s])" % "; ".join(model), "(SL [%s])" % "; ".join(exp)


def item(case, run):
    k = case["kind"]
    if k == "obs":
        return item_obs(case, run)
    if k == "alg":
        return item_alg(case, run)
    if k == "times":
        return item_times(case, run)
    return item_backend(case, run)


def cases_file(items) -> str:
    out = [HEADER]
    for i, (m, e) in enumerate(items):
        out.append("Definition case_%d : sv * sv := (%s,\n  %s)." % (i, m, e))
    out.append("Definition bad : list Z := mismatches [%s]." % "; ".join("case_%d" % i for i in range(len(items))))
    out.append("Eval vm_compute in bad.")
    return "\n".join(out) + "\n"


def explain_file(item) -> str:
    """for debugging a mismatch: prints the model value and the expectation"""
    m, e = item
    return HEADER + "Eval vm_compute in (%s).\nEval vm_compute in (%s).\n" % (m, e)
