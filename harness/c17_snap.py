"""C17 helpers shared by the translator (translate/tr_c17.py) and the check
(harness/props/c17.py): neutral snapshots of Pulser objects and the emitter of
Coq [pv] terms (Model/RtJson.v).

Neutral form: None, bool, int, float, complex, str, list, dict (insertion
ordered).  An instance is a dict whose first key is "__class__" followed by
its dataclass fields in field order.  Tuples become lists, enum members their
name, numpy scalars/arrays plain Python numbers/lists."""
from __future__ import annotations

import dataclasses
import enum
import math

import numpy as np

from harness.common import fhex


# ------------------------------------------------------------------ neutral
def neutral(x):
    """Value -> neutral form (recursively)."""
    if x is None or isinstance(x, (bool, str)):
        return x
    if isinstance(x, enum.Enum):
        return x.name
    if isinstance(x, (int, float, complex)):
        return x
    if isinstance(x, np.bool_):
        return bool(x)
    if isinstance(x, np.integer):
        return int(x)
    if isinstance(x, np.floating):
        return float(x)
    if isinstance(x, np.complexfloating):
        return complex(x)
    if isinstance(x, np.ndarray):
        return neutral(x.tolist())
    if isinstance(x, (list, tuple)):
        return [neutral(y) for y in x]
    if isinstance(x, dict):
        return {str(k): neutral(v) for k, v in x.items()}
    if hasattr(x, "as_array"):  # pulser.math.AbstractArray
        return neutral(x.as_array(detach=True))
    if type(x).__name__ == "RegisterLayout" or (
        hasattr(x, "sorted_coords") and hasattr(x, "slug") and hasattr(x, "define_register")
    ):
        # RegisterLayout and its special-layout subclasses: identity = canonical coordinates + slug
        return snap_layout(x)
    if type(x).__name__ == "NoiseModel":
        return snap_noise(x)
    if dataclasses.is_dataclass(x) and not isinstance(x, type):
        return snap_dataclass(x)
    if hasattr(x, "full"):  # qutip.Qobj
        return neutral(x.full())
    raise TypeError(f"c17_snap.neutral: cannot take {type(x)}")


def snap_dataclass(o):
    d = {"__class__": type(o).__name__}
    for f in dataclasses.fields(o):
        d[f.name] = neutral(getattr(o, f.name))
    return d


def snap_layout(lay):
    return {
        "__class__": "RegisterLayout",
        "coordinates": neutral(lay.sorted_coords),
        "slug": lay.slug,
    }


def snap_noise(nm):
    d = {"__class__": "NoiseModel"}
    for f in dataclasses.fields(nm):
        d[f.name] = neutral(getattr(nm, f.name))
    return d


def field_table(cls):
    """[(name, init, has_default, default-in-neutral-form)] of a dataclass"""
    out = []
    for f in dataclasses.fields(cls):
        if f.default is not dataclasses.MISSING:
            out.append((f.name, bool(f.init), True, neutral(f.default)))
        elif f.default_factory is not dataclasses.MISSING:
            out.append((f.name, bool(f.init), True, neutral(f.default_factory())))
        else:
            out.append((f.name, bool(f.init), False, None))
    return out


# ------------------------------------------------------------------ emitter
def coq_str(s: str) -> str:
    if any(ord(c) > 126 or ord(c) < 32 for c in s):
        raise ValueError(f"non-printable/non-ASCII string in a Coq term: {s!r}")
    return '"' + s.replace('"', '""') + '"'


def coq_flt(x: float) -> str:
    return "(" + fhex(x) + ")"


def coq_pv(x) -> str:
    """neutral value -> Coq term of type [pv]"""
    if x is None:
        return "PNone"
    if isinstance(x, bool):
        return "(PBool true)" if x else "(PBool false)"
    if isinstance(x, int):
        return f"(PInt ({x}))"
    if isinstance(x, float):
        return f"(PFlt {coq_flt(x)})"
    if isinstance(x, complex):
        return f"(PCx {coq_flt(x.real)} {coq_flt(x.imag)})"
    if isinstance(x, str):
        return f"(PStr {coq_str(x)})"
    if isinstance(x, (list, tuple)):
        return "(PList [" + "; ".join(coq_pv(y) for y in x) + "])"
    if isinstance(x, dict):
        return "(PDict [" + "; ".join(f"({coq_str(str(k))}, {coq_pv(v)})" for k, v in x.items()) + "])"
    raise TypeError(f"coq_pv: {type(x)}")


def coq_opt_pv(x, present=True) -> str:
    return f"(Some {coq_pv(x)})" if present else "None"


def coq_strs(l) -> str:
    return "[" + "; ".join(coq_str(s) for s in l) + "]"


def coq_kvs(d: dict) -> str:
    return "[" + "; ".join(f"({coq_str(str(k))}, {coq_pv(v)})" for k, v in d.items()) + "]"


def finite(x) -> bool:
    if isinstance(x, complex):
        return math.isfinite(x.real) and math.isfinite(x.imag)
    if isinstance(x, float):
        return math.isfinite(x)
    return True
