"""C19 - the abstract (JSON) representation of detuning maps keeps "the
weight of the trap at its position".

For 2-D maps (the abstract format has x, y only):
  * standalone: every trap listed by `WeightMap._to_abstract_repr()` carries
    the weight that was given to the trap at that (rounded) position, and the
    listing is in canonical (x, then y) order - for maps built directly, by
    `layout.define_detuning_map` and by `register.define_detuning_map`,
    whatever the order in which traps / weights were given;
  * inside a Sequence: config_detuning_map -> to_abstract_repr ->
    from_abstract_repr gives every qubit the same weight as before and a map
    that compares equal.
"""
from __future__ import annotations

import json

import numpy as np

PREC = 6


def _pairs(rows, ws):
    r = np.round(np.array(rows, dtype=float), PREC)
    return sorted((float(x) + 0.0, float(y) + 0.0, float(w) + 0.0) for (x, y), w in zip(r, ws))


def _listing(m):
    return [(float(t["x"]), float(t["y"]), float(t["weight"])) for t in m._to_abstract_repr()["traps"]]


def check_listing(bad, tag, m, rows, ws):
    got = _listing(m)
    norm = sorted((x + 0.0, y + 0.0, w + 0.0) for x, y, w in got)
    want = _pairs(rows, ws)
    if [g[:2] for g in norm] != [w[:2] for w in want]:
        bad("abstract-repr:weight-map:wrong-traps", f"{tag}: serialized traps {got}, given {want}")
    elif norm != want:
        bad("abstract-repr:weight-map:weights-detached",
            f"{tag}: serialized (x, y, weight) {got} but the traps were given the weights {want}")
    elif [g[:2] for g in got] != sorted(g[:2] for g in got):
        bad("abstract-repr:weight-map:not-canonical-order", f"{tag}: serialized traps not in (x, y) order: {got}")


def run(case, bad):
    import pulser
    from pulser.devices import MockDevice
    from pulser.register.register_layout import RegisterLayout
    from pulser.register.weight_maps import DetuningMap

    c = case
    n_checked = 0
    # ---------------- standalone listings
    M = None
    try:
        M = DetuningMap(c["wcoords"], c["weights"])
    except Exception:  # noqa: BLE001
        M = None
    if M is not None and M.dimensionality == 2:
        check_listing(bad, "DetuningMap(coords, weights)", M, c["wcoords"], c["weights"])
        n_checked += 1
    else:
        M = None
    try:
        L = RegisterLayout(c["coords"])
    except Exception:  # noqa: BLE001
        L = None
    if L is not None and L.dimensionality == 2:
        n = L.number_of_traps
        ldm = [(int(t), float(w)) for t, w in c["ldm"]]
        if len(ldm) >= 2 and all(0 <= t < n and 0 <= w <= 1 for t, w in ldm):
            try:
                m = L.define_detuning_map(dict(ldm))
            except Exception:  # noqa: BLE001
                m = None
            if m is not None:
                check_listing(bad, "layout.define_detuning_map", m, [L.coords[t] for t, _ in dict(ldm).items()],
                              [w for _, w in dict(ldm).items()])
                n_checked += 1
        # a register whose qubits are in the given (not canonical) order
        sel = list(dict.fromkeys(t for t in c["ids"] if 0 <= t < n))
        if sel:
            try:
                R = L.define_register(*sel)
                ws = [((7 * i + 3) % 11) / 10.0 for i in range(len(sel))]
                m = R.define_detuning_map(dict(zip(R.qubit_ids, ws)))
            except Exception:  # noqa: BLE001
                m = None
            if m is not None:
                check_listing(bad, "register.define_detuning_map", m, [L.coords[t] for t in sel], ws)
                n_checked += 1

    # ---------------- inside a sequence
    if M is not None:
        rows = [tuple(float(v) for v in r) for r in np.round(np.array(c["wcoords"], dtype=float), PREC)]
        if len(set(rows)) == len(rows):
            reg = pulser.Register({f"q{i}": list(r) for i, r in enumerate(rows)})
            via_reg = len(rows) % 2 == 1
            dmap = reg.define_detuning_map({f"q{i}": float(w) for i, w in enumerate(c["weights"])}) if via_reg else M
            before = dmap.get_qubit_weight_map(reg.qubits)
            try:
                seq = pulser.Sequence(reg, MockDevice)
                seq.config_detuning_map(dmap, "dmm_0")
            except Exception:  # noqa: BLE001
                return n_checked  # the device refuses this register (e.g. atoms too close): not our concern
            try:
                ser = seq.to_abstract_repr()
                ops = [op for op in json.loads(ser)["operations"] if op["op"] == "config_detuning_map"]
                got = sorted((float(t["x"]) + 0.0, float(t["y"]) + 0.0, float(t["weight"]) + 0.0)
                             for t in ops[0]["detuning_map"]["traps"])
                want = _pairs(c["wcoords"], c["weights"])
                if got != want:
                    bad("abstract-repr:sequence:weights-detached",
                        f"Sequence.to_abstract_repr lists the detuning map as {got}; traps were given {want}")
                seq2 = pulser.Sequence.from_abstract_repr(ser)
                dmap2 = seq2._schedule["dmm_0"].detuning_map
                after = dmap2.get_qubit_weight_map(seq2.register.qubits)
                if after != before:
                    bad("abstract-repr:sequence:qubit-weights-changed",
                        f"after to_abstract_repr/from_abstract_repr the qubits get {after} instead of {before}")
                elif not (dmap2 == dmap):
                    bad("abstract-repr:sequence:map-unequal", "the detuning map read back compares unequal")
                n_checked += 1
            except Exception as e:  # noqa: BLE001
                bad("abstract-repr:sequence:raises", f"sequence round trip of a detuning map raised {e!r}")
    return n_checked
