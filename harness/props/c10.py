"""C10 - phase-jump time and retarget intervals are honoured."""
from __future__ import annotations

from harness.framework import Violation
from harness.seqprop import indep_phase_jump, indep_rise, indep_fall, SeqProp, slots_of
from pulser import Pulse
from pulser.sequence._schedule import _ChannelSchedule


class C10(SeqProp):
    id = "C10"
    props_file = "Props/C10.v"
    focus = "local"
    quick_cases = 800
    thorough_cases = 6000
    assumptions = [
        "fall times of pulses (FFT modulation) enter the model as oracle inputs",
    ]

    def pick_focus(self, rng):
        return rng.choice(["local", "local", "phase", "phase", "conflict", "eom", None])

    def oracle_init(self, case):
        return dict(prev={}, eom_before={})

    def oracle_step(self, st, i, op, seq, out, exc, case):
        v = []

        def bad(sig, what):
            v.append(Violation(sig, what, dict(case, ops=case["ops"][: i + 1])))

        cur = slots_of(seq)
        prev = st["prev"]
        k = op["op"]
        name = op.get("channel")
        ok = exc is None
        # --- phase-jump time between consecutive pulses of different phase
        if k in ("add", "add_eom") and ok and name in cur and name in prev and len(cur[name]) > len(prev[name]):
            cs = seq._schedule[name]
            ch = cs.channel_obj
            new = cur[name][-1]
            proto = op.get("protocol", 0)
            if isinstance(new.type, Pulse) and proto != 1:
                lps = None
                for q in reversed(prev[name]):
                    if isinstance(q.type, Pulse) and not _ChannelSchedule.is_detuned_delay(q.type):
                        lps = q
                        break
                if lps is not None and float(lps.type.phase) != float(new.type.phase):
                    ie = cs.in_eom_mode()
                    need = max(indep_phase_jump(ch), 2 * indep_rise(ch) * ie) + indep_fall(lps.type, ch, ie)
                    gap = new.ti - lps.tf
                    if gap < need:
                        bad(
                            "phase-jump-gap-too-short" + (":eom" if ie else ""),
                            f"channel {name}: pulses of phases {float(lps.type.phase)} / {float(new.type.phase)} are {gap} ns apart, need {need}",
                        )
        # --- retargeting
        if k in ("target", "target_index") and ok and name in cur and name in prev and prev[name]:
            cs = seq._schedule[name]
            ch = cs.channel_obj
            before, after = prev[name], cur[name]
            old_tg = set(before[-1].targets)
            new_tg = set(after[-1].targets)
            if old_tg == new_tg:
                if len(after) != len(before):
                    # retargeting to the same atoms must insert nothing
                    only_fall_wait = all(s.type == "delay" for s in after[len(before):])
                    bad(
                        "retarget-same-inserts" + (":fall-time-wait" if only_fall_wait else ""),
                        f"channel {name}: target() on the current targets appended {[(s.type if not isinstance(s.type, Pulse) else 'pulse', s.ti, s.tf) for s in after[len(before):]]}",
                    )
            else:
                t = after[-1]
                if t.type != "target":
                    bad("retarget-no-target-slot", f"channel {name}: last slot after a retarget is {t.type}")
                else:
                    # previous target instruction
                    pt = None
                    for q in reversed(before):
                        if q.type == "target":
                            pt = q
                            break
                    if pt is not None and t.tf - pt.tf < (ch.min_retarget_interval or 0):
                        bad("retarget-interval-too-short", f"channel {name}: target ends {pt.tf} -> {t.tf}, min_retarget_interval {ch.min_retarget_interval}")
                    if (ch.fixed_retarget_t or 0) and t.tf - t.ti < ch.fixed_retarget_t:
                        bad("retarget-shorter-than-fixed", f"channel {name}: retarget lasts {t.tf - t.ti} < fixed_retarget_t {ch.fixed_retarget_t}")
                    for q in reversed(before):
                        if isinstance(q.type, Pulse):
                            ie = st["eom_before"].get(name, False)
                            end = q.tf + indep_fall(q.type, ch, ie)
                            if t.ti < end:
                                bad("retarget-before-ramp-down", f"channel {name}: retarget begins at {t.ti}, previous pulse ramps down until {end}")
                            break
        st["prev"] = cur
        st["eom_before"] = {n: cs.in_eom_mode() for n, cs in seq._schedule.items()}
        return v


CHECK = C10()
