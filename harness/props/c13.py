"""C13 - which building operations are accepted follows the documented typestate."""
from __future__ import annotations

import warnings

from harness.framework import Violation
from harness.seqprop import SeqProp
from pulser import Pulse
from pulser.channels import DMM, Microwave

TIMELINE = {
    "declare", "target", "target_index", "delay", "add", "add_eom", "add_dmm", "enable_eom",
    "modify_eom", "disable_eom", "align", "measure", "config_detmap",
}


def mode_of(seq):
    ch = {}
    for name, cs in seq._schedule.items():
        obj = cs.channel_obj
        ch[name] = dict(
            id=cs.channel_id,
            local=obj.addressing == "Local",
            dmm=isinstance(obj, DMM),
            xy=isinstance(obj, Microwave),
            eom=bool(cs.eom_blocks) and cs.eom_blocks[-1].tf is None,
            has_target=bool(cs.slots),
        )
    return dict(
        measured=getattr(seq, "_measurement", None) is not None,
        channels=ch,
        reusable=bool(seq.device.reusable_channels),
    )


def must_refuse(mode, op, case):
    """reasons (documented typestate) for which `op` must be refused in `mode`"""
    k = op["op"]
    why = []
    chs = mode["channels"]
    if mode["measured"] and k in TIMELINE:
        why.append("measured")
    name = op.get("channel")
    c = chs.get(name) if isinstance(name, str) else None
    if k == "declare":
        if op["name"] in chs:
            why.append("name-declared-twice")
        spec = next((x for x in case["device"]["channels"] if x["id"] == op["channel_id"]), None)
        if spec is not None:
            if not mode["reusable"] and any(x["id"] == op["channel_id"] for x in chs.values()):
                why.append("channel-id-declared-twice")
            is_xy = spec["kind"] == "Microwave"
            others_nonxy = any(not x["xy"] for x in chs.values())
            others_xy = any(x["xy"] for x in chs.values())
            if is_xy and others_nonxy:
                why.append("xy-with-other-channels")
            if not is_xy and others_xy:
                why.append("non-xy-with-xy-channel")
    if k == "config_detmap":
        if any(x["xy"] for x in chs.values()):
            why.append("dmm-with-xy-channel")
        if not mode["reusable"] and any(x["id"] == op["dmm_id"] for x in chs.values()):
            why.append("dmm-declared-twice")
    if c is not None:
        if c["eom"] and k in ("add", "target", "target_index", "enable_eom"):
            why.append("in-eom-mode")
        if not c["eom"] and k in ("add_eom", "disable_eom", "modify_eom"):
            why.append("not-in-eom-mode")
        if c["local"] and not c["has_target"] and k in ("add", "add_eom"):
            why.append("local-without-target")
    return why


class C13(SeqProp):
    id = "C13"
    props_file = "Props/C13.v"
    focus = "typestate"
    quick_cases = 800
    thorough_cases = 6000
    extra_targets = ["Model/Chan.v", "Model/SeqSnap.v"]
    assumptions = [
        "the parametrized clause ('once a variable is used ... inspection calls are refused until built') is decided on the implementation only (scenarios in extra_checks) plus the regenerated decorator table (C13_source_screened): the sequence model has no variables",
    ]

    def pick_focus(self, rng):
        return rng.choice(["typestate", "typestate", "typestate", "eom", None])

    def gen_case(self, rng, tier):
        from harness import seqgen

        n_ops = rng.randint(3, 25) if tier == "quick" else rng.randint(3, 50)
        return seqgen.gen_case(rng, n_ops=n_ops, focus=self.pick_focus(rng), xy=rng.random() < 0.4)

    def oracle_init(self, case):
        return dict(mode=dict(measured=False, channels={}, reusable=bool(case["device"].get("reusable", False))))

    def oracle_step(self, st, i, op, seq, out, exc, case):
        v = []
        why = must_refuse(st["mode"], op, case)
        if why and exc is None:
            v.append(
                Violation(
                    "accepted-in-wrong-mode:" + why[0],
                    f"{op['op']} accepted although the documented mode refuses it ({', '.join(why)})",
                    dict(case, ops=case["ops"][: i + 1]),
                )
            )
        # a Local channel declared with an initial target HAS that target (so that its first
        # pulse is accepted): an accepted declaration must not drop it
        if op["op"] == "declare" and exc is None and op.get("initial_target") is not None and op["name"] in seq._schedule:
            cs = seq._schedule[op["name"]]
            it = op["initial_target"]
            want = set(it) if isinstance(it, (list, tuple)) else {it}
            if cs.channel_obj.addressing == "Local":
                got = set(cs.slots[-1].targets) if cs.slots else None
                if got != want:
                    v.append(Violation("declared-initial-target-not-set",
                                       f"declare_channel({op['name']!r}, initial_target={it!r}) accepted, channel targets {got}",
                                       dict(case, ops=case["ops"][: i + 1])))
        st["mode"] = mode_of(seq)
        return v

    def parametrized_histories(self, tier, rng):
        """random histories on a sequence that becomes parametrized at a random point:
        the EOM typestate (per channel) and the inspection refusals must follow the
        documented mode, tracked here from the calls that were accepted"""
        from pulser import Register, Sequence
        from pulser.devices import MockDevice

        v = []
        for k in range(40 if tier == "quick" else 400):
            with warnings.catch_warnings():
                warnings.simplefilter("ignore")
                from harness import seqimpl

                eomspec = dict(mod_bandwidth=40.0, custom_buffer_time=None, limiting_beam="RED", controlled_beams=["BLUE"],
                               multiple_beam_control=True, max_limiting_amp=188.0, intermediate_detuning=4398.0)
                chan = lambda i, kind, addr, e: dict(id=f"ch{i}", kind=kind, addressing=addr, clock_period=1, min_duration=1,  # noqa: E731
                                                     max_duration=10**8, mod_bandwidth=8.0, custom_phase_jump_time=None, max_amp=None,
                                                     max_abs_detuning=None, min_avg_amp=0, min_retarget_interval=0, fixed_retarget_t=0,
                                                     max_targets=None, **({"eom": dict(e)} if e else {}))
                dev = seqimpl.build_device(dict(channels=[chan(0, "Rydberg", "Global", eomspec), chan(1, "Rydberg", "Global", eomspec),
                                                          chan(2, "Raman", "Local", None)], dmms=[], max_sequence_duration=None,
                                                reusable=False, slm=False))
                reg = Register.square(2, 5, prefix="q")
                seq = Sequence(reg, dev)
                seq.declare_channel("a", "ch0")
                seq.declare_channel("b", "ch1")
                seq.declare_channel("c", "ch2", initial_target="q0")
                x = seq.declare_variable("x", dtype=float)
                eom = {"a": False, "b": False, "c": False}
                param = False
                measured = None  # None / "concrete" (measured before any variable was used) / "parametrized"
                hist = []
                n = rng.randint(4, 12)
                when = rng.randrange(n)
                for i in range(n):
                    ch = rng.choice(["a", "a", "b", "b", "c"])
                    kind = rng.choice(["enable", "disable", "add", "add_eom", "target", "delay", "estimate", "duration", "phase_ref"]
                                      + (["measure"] if k % 2 else []))
                    use_var = (i == when) or (param and rng.random() < 0.3)
                    amp = (1.0 + 0 * x) if use_var else 1.0
                    dur = 100
                    call = None
                    refuse = None
                    if kind == "enable":
                        call = lambda: seq.enable_eom_mode(ch, amp, 0.0, 0.0)  # noqa: E731
                        if ch == "c":
                            refuse = "no-eom-config"
                        elif eom[ch]:
                            refuse = "in-eom-mode"
                    elif kind == "disable":
                        call = lambda: seq.disable_eom_mode(ch)  # noqa: E731
                        use_var = False
                        if not eom[ch]:
                            refuse = "not-in-eom-mode"
                    elif kind == "add":
                        call = lambda: seq.add(Pulse.ConstantPulse(dur, amp, 0.0, 0.0), ch)  # noqa: E731
                        if eom[ch]:
                            refuse = "in-eom-mode"
                    elif kind == "add_eom":
                        call = lambda: seq.add_eom_pulse(ch, dur, (0.0 + 0 * x) if use_var else 0.0)  # noqa: E731
                        if not eom[ch]:
                            refuse = "not-in-eom-mode"
                    elif kind == "target":
                        call = lambda: seq.target("q1", ch)  # noqa: E731
                        use_var = False
                        if ch != "c":
                            refuse = "global-channel"
                        elif eom[ch]:
                            refuse = "in-eom-mode"
                    elif kind == "delay":
                        call = lambda: seq.delay((100 + 0 * x) if use_var else 100, ch)  # noqa: E731
                    elif kind == "estimate":
                        call = lambda: seq.estimate_added_delay(Pulse.ConstantPulse(dur, 1.0, 0.0, 0.0), ch)  # noqa: E731
                        use_var = False
                        if param:
                            refuse = "inspection-while-parametrized"
                        elif eom[ch]:
                            refuse = None  # not part of the documented table: not judged
                            call = None
                    elif kind == "duration":
                        call = lambda: seq.get_duration()  # noqa: E731
                        use_var = False
                        if param:
                            refuse = "inspection-while-parametrized"
                    else:
                        call = lambda: seq.current_phase_ref("q0", "digital")  # noqa: E731
                        use_var = False
                        if param:
                            refuse = "inspection-while-parametrized"
                    if kind == "measure":
                        call = lambda: seq.measure("ground-rydberg")  # noqa: E731
                        use_var = False
                        refuse = None
                        if measured:
                            refuse = "already-measured"
                            if measured == "concrete" and param:
                                refuse = "after-measurement:measured-before-first-variable"
                    elif measured and kind in ("enable", "disable", "add", "add_eom", "target", "delay"):
                        # after the measurement nothing may be added, whatever else would apply
                        refuse = "after-measurement" + (":measured-before-first-variable" if measured == "concrete" and (param or use_var) else "")
                    if call is None:
                        continue
                    hist.append((kind, ch, bool(use_var)))
                    case = dict(scenario="parametrized-history", k=k, history=list(hist))
                    try:
                        call()
                        ok = True
                    except Exception as e:  # noqa: BLE001
                        ok = False
                        err = e
                    if refuse and ok:
                        v.append(Violation("accepted-in-wrong-mode:" + refuse + (":parametrized" if param and "measured-before" not in refuse else ""),
                                           f"{kind} on {ch} accepted (mode: eom={eom}, parametrized={param})", case))
                    if not refuse and not ok:
                        v.append(Violation("refused-in-right-mode:" + kind + (":parametrized" if param else ""),
                                           f"{kind} on {ch} refused with {err!r} (mode: eom={eom}, parametrized={param})"[:300], case))
                    if ok and kind == "measure":
                        measured = "parametrized" if param else "concrete"
                    if ok:
                        if kind == "enable":
                            eom[ch] = True
                        elif kind == "disable":
                            eom[ch] = False
                        if use_var and kind in ("enable", "add", "add_eom", "delay"):
                            param = True
                    if param and not seq.is_parametrized():
                        v.append(Violation("variable-used-but-not-parametrized", f"after {kind} on {ch}", case))
                    # (a refused call that carried a variable also flips the sequence to
                    # parametrized: C09's known mutation-before-validation, not judged here)
                    param = seq.is_parametrized()
                    if len(v) > 20:
                        return v
        return v

    def scripted_parametrized(self):
        """fixed histories in which the EOM mode changes AFTER the sequence became parametrized
        (and the other way round): the refusals must follow the mode the recorded calls imply"""
        from pulser import Register, Sequence

        from harness import seqimpl

        eomspec = dict(mod_bandwidth=40.0, custom_buffer_time=None, limiting_beam="RED", controlled_beams=["BLUE"],
                       multiple_beam_control=True, max_limiting_amp=188.0, intermediate_detuning=4398.0)
        chan = lambda i, kind, addr, e: dict(id=f"ch{i}", kind=kind, addressing=addr, clock_period=1, min_duration=1,  # noqa: E731
                                             max_duration=10**8, mod_bandwidth=8.0, custom_phase_jump_time=None, max_amp=None,
                                             max_abs_detuning=None, min_avg_amp=0, min_retarget_interval=0, fixed_retarget_t=0,
                                             max_targets=None, **({"eom": dict(e)} if e else {}))
        scripts = {
            "variable-then-enable": [("delay_var", True), ("enable", True), ("add", False), ("target_local", None), ("add_eom", True),
                                     ("disable", True), ("add", True), ("add_eom", False)],
            "enable-then-variable-then-disable": [("enable", True), ("delay_var", True), ("add", False), ("disable", True), ("add", True),
                                                  ("add_eom", False), ("enable", True), ("add", False)],
            "enable-var-then-disable": [("enable_var", True), ("add", False), ("add_eom", True), ("disable", True), ("add", True)],
            "concrete-control": [("enable", True), ("add", False), ("add_eom", True), ("disable", True), ("add", True), ("add_eom", False)],
        }
        v = []
        for sname, script in scripts.items():
            for local in (False, True):
                with warnings.catch_warnings():
                    warnings.simplefilter("ignore")
                    dev = seqimpl.build_device(dict(channels=[chan(0, "Rydberg", "Local" if local else "Global", eomspec)], dmms=[],
                                                    max_sequence_duration=None, reusable=False, slm=False))
                    seq = Sequence(Register.square(2, 5, prefix="q"), dev)
                    seq.declare_channel("a", "ch0", **({"initial_target": "q0"} if local else {}))
                    x = seq.declare_variable("x", dtype=float)
                    for step, (what, accept) in enumerate(script):
                        if what == "target_local":
                            if not local:
                                continue
                            accept = False  # in EOM mode at that point of the script
                        calls = {
                            "delay_var": lambda: seq.delay(100 + 0 * x, "a"),
                            "enable": lambda: seq.enable_eom_mode("a", 1.0, 0.0, 0.0),
                            "enable_var": lambda: seq.enable_eom_mode("a", 1.0 + 0 * x, 0.0, 0.0),
                            "disable": lambda: seq.disable_eom_mode("a"),
                            "add": lambda: seq.add(Pulse.ConstantPulse(100, 1.0, 0.0, 0.0), "a"),
                            "add_eom": lambda: seq.add_eom_pulse("a", 100, 0.0),
                            "target_local": lambda: seq.target("q1", "a"),
                        }
                        case = dict(scenario="parametrized-script", script=sname, local=local, step=step, call=what)
                        try:
                            calls[what]()
                            ok = True
                        except Exception as e:  # noqa: BLE001
                            ok = False
                            err = e
                        if ok and not accept:
                            v.append(Violation("accepted-in-wrong-mode:eom-typestate:parametrized-script",
                                               f"{sname}: step {step} ({what}) accepted although the recorded calls put the channel {'in' if what in ('add', 'target_local') else 'out of'} EOM mode", case))
                        if not ok and accept:
                            v.append(Violation("refused-in-right-mode:eom-typestate:parametrized-script",
                                               f"{sname}: step {step} ({what}) refused with {err!r}"[:300], case))
        return v

    def replay(self, payload):
        case = payload.get("case") or {}
        if isinstance(case, dict) and "scenario" in case:
            import random

            viols = [x for x in self.extra_checks("quick", random.Random(20260926)) if x.signature == payload.get("signature")]
            for x in viols:
                print("REPRODUCED:", x.signature, "-", x.what)
            return 1 if viols else 0
        return super().replay(payload)

    # ---- parametrized clause, on the implementation
    def extra_checks(self, tier, rng):
        from pulser import Register, Sequence
        from pulser.devices import MockDevice

        v = []
        n = 30 if tier == "quick" else 300
        for k in range(n):
            with warnings.catch_warnings():
                warnings.simplefilter("ignore")
                reg = Register.square(2, 5, prefix="q")
                seq = Sequence(reg, MockDevice)
                seq.declare_channel("a", "rydberg_global")
                seq.declare_channel("b", "raman_local", initial_target="q0")
                dt = rng.choice([int, float])
                x = seq.declare_variable("x", dtype=dt)
                case = dict(scenario="parametrized", k=k)
                try:
                    seq.get_duration()
                    seq.current_phase_ref("q0", "digital")
                except Exception as e:  # noqa: BLE001
                    v.append(Violation("inspection-refused-before-variable-used", repr(e), case))
                    continue
                use = rng.choice(["delay", "add", "phase_shift", "target_index", "add_after_plain"])
                if use == "add_after_plain":
                    seq.add(Pulse.ConstantPulse(100, 1.0, 0.0, 0.0), "a")
                    use = "add"
                if use == "delay":
                    seq.delay(x if dt is int else 100 + 0 * x, "a")
                elif use == "add":
                    seq.add(Pulse.ConstantPulse(100, x, 0.0, 0.0), "a")
                elif use == "phase_shift":
                    seq.phase_shift(x, "q0", basis="digital")
                else:
                    if dt is int:
                        seq.target_index(x, "b")
                    else:
                        seq.delay(100 + 0 * x, "b")
                case["use"] = use
                if not seq.is_parametrized():
                    v.append(Violation("variable-used-but-not-parametrized", f"after {use}", case))
                    continue
                for nm, f in (
                    ("get_duration", lambda: seq.get_duration()),
                    ("current_phase_ref", lambda: seq.current_phase_ref("q0", "digital")),
                    ("draw", lambda: seq.draw()),
                ):
                    try:
                        f()
                        v.append(Violation("inspection-accepted-while-parametrized:" + nm, f"{nm} accepted after {use}", case))
                    except RuntimeError:
                        pass
                    except Exception as e:  # noqa: BLE001
                        v.append(Violation("inspection-wrong-error-while-parametrized:" + nm, repr(e), case))
                try:
                    val = 1 if dt is int else 0.5
                    built = seq.build(x=val)
                    built.get_duration()
                    built.current_phase_ref("q0", "digital")
                    if built.is_parametrized():
                        v.append(Violation("built-still-parametrized", "", case))
                except Exception as e:  # noqa: BLE001
                    v.append(Violation("inspection-refused-after-build", repr(e), case))
        v += self.parametrized_histories(tier, rng)
        v += self.scripted_parametrized()
        # declared-once clauses while the sequence is parametrized (physical device)
        from pulser.devices import DigitalAnalogDevice

        for k in range(6 if tier == "quick" else 40):
            with warnings.catch_warnings():
                warnings.simplefilter("ignore")
                reg = Register.square(2, 5, prefix="q")
                seq = Sequence(reg, DigitalAnalogDevice)
                case = dict(scenario="declared-once-while-parametrized", k=k)
                seq.declare_channel("a", "rydberg_global")
                x = seq.declare_variable("x", dtype=float)
                early = bool(k % 2)
                if early:
                    seq.add(Pulse.ConstantPulse(100, x, 0.0, 0.0), "a")
                dmap = reg.define_detuning_map({"q0": 1.0, "q1": 0.5})
                kind = ["dmm", "channel", "name"][(k // 2) % 3]
                case.update(early=early, kind=kind)
                try:
                    if kind == "dmm":
                        seq.config_detuning_map(dmap, "dmm_0")
                        if not early:
                            seq.add(Pulse.ConstantPulse(100, x, 0.0, 0.0), "a")
                        seq.config_detuning_map(dmap, "dmm_0")
                    elif kind == "channel":
                        seq.declare_channel("b", "raman_local", initial_target="q0")
                        if not early:
                            seq.add(Pulse.ConstantPulse(100, x, 0.0, 0.0), "a")
                        seq.declare_channel("c", "raman_local", initial_target="q0")
                    else:
                        if not early:
                            seq.add(Pulse.ConstantPulse(100, x, 0.0, 0.0), "a")
                        seq.declare_channel("a", "raman_local", initial_target="q0")
                    v.append(Violation("accepted-in-wrong-mode:declared-twice-while-parametrized:" + kind,
                                       f"second declaration accepted on a device without reusable channels ({kind})", case))
                except ValueError:
                    pass
                except Exception as e:  # noqa: BLE001
                    v.append(Violation("declared-twice-wrong-error:" + kind, repr(e), case))
        return v


CHECK = C13()
