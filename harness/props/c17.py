"""C17 - devices, registers, layouts, noise models, configs, results round-trip.

Correspondence: for every generated object the model's encoder is compared
with the JSON the implementation produced, the model's decoder with the
snapshot of the object the implementation decoded (also on JSON variants the
encoder never emits), NoiseModel.__init__ / SimConfig conversions with the
real constructors, and the instance/class attribute model with the readings
of StateRepr.n_qudits.  Oracle: harness/c17_impl.py."""
from __future__ import annotations

import json
import random

from harness import c17_gen, c17_impl
from harness import c17_snap as S
from harness.framework import PropCheck, Violation

HEADER = """From Coq Require Import ZArith List Bool String.
From Coq Require Import PrimFloat.
From PV Require Import Model.Base Model.RtJson Gen.RtTables Model.RtNoise Model.RtDev Model.RtBackend.
Import ListNotations.
Open Scope string_scope.
Open Scope list_scope.
Open Scope Z_scope.
Definition both (l : list (sv * sv)) : sv * sv := (SL (map fst l), SL (map snd l)).
"""


def some(x):
    return f"(sv_of_opt (Some {S.coq_pv(x)}))"


def opt_expected(x):
    return "(sv_of_opt None)" if x is None else some(x)


def inst_state(sn):
    return {"__class__": "StateRepr", "eigenstates": sn["eigenstates"], "amplitudes": sn["amplitudes"], "n_qudits": sn["n_qudits"]}


def inst_operator(sn):
    return {"__class__": "OperatorRepr", "eigenstates": sn["eigenstates"], "n_qudits": sn["n_qudits"], "operations": sn["operations"]}


def results_inst(run):
    return c17_impl.results_model_inst(run["inst"])


def results_dec_inst(run):
    return c17_impl.results_model_inst(run["dec"])


class C17(PropCheck):
    id = "C17"
    props_file = "Props/C17.v"
    quick_cases = 700
    thorough_cases = 12000
    shard = 60
    assumptions = [
        "constructor validation (__post_init__) of channels and devices is not modelled: that the decoded object is accepted is observed on every case, not proved",
        "RegisterLayout canonicalisation (rounding to 1e-6 and sorting) is taken as given: layout instances are their canonical coordinates",
        "complex restoration real + 1j*imag is exact for finite parts (checked bit-exactly on every complex value of the run)",
        "registers, detuning maps and EmulationConfig as a whole are checked by the oracle only (their state/operator/noise parts are modelled)",
    ]
    trusted_base_extra = [
        "jsonschema (schema validity is decided by the library the tree itself uses)",
        "the neutral snapshot functions of harness/c17_snap.py and harness/c17_impl.py",
    ]

    def gen_case(self, rng: random.Random, tier: str):
        return c17_gen.gen_case(rng, tier)

    def run_impl(self, case):
        return c17_impl.run_case(case)

    # ------------------------------------------------------------ Coq terms
    def coq_item(self, case, run):
        k = run["kind"]
        pairs = []
        if "invalid" in run:
            return pairs
        if k == "device":
            if "json" in run:
                pairs.append((f"(sv_of_opt (enc_dev {S.coq_pv(run['inst'])}))", some(run["json"])))
                if "dec" in run:
                    pairs.append((f"(sv_of_opt (dec_dev {S.coq_pv(run['json'])}))", some(run["dec"])))
                for fv in run.get("foreign", []):
                    pairs.append((f"(sv_of_opt (dec_dev {S.coq_pv(fv[0])}))", opt_expected(fv[1])))
        elif k == "noise":
            args = S.coq_kvs(run["args"])
            pairs.append((f"(sv_of_opt (noise_init {args}))", opt_expected(run["init"])))
            if run["init"] is not None and "json" in run:
                pairs.append((f"(sv_of_opt (enc_noise {S.coq_pv(run['init'])}))", some(run["json"])))
                pairs.append((f"(sv_of_opt (dec_noise {S.coq_pv(run['json'])}))", opt_expected(run.get("dec"))))
                if "sc" in run:
                    pairs.append((f"(sv_of_opt (sc_from_noise {S.coq_pv(run['init'])}))", opt_expected(run["sc"])))
                    if run["sc"] is not None and "back" in run:
                        pairs.append((f"(sv_of_opt (sc_to_noise {S.coq_pv(run['sc'])}))", opt_expected(run["back"])))
        elif k == "simconfig":
            args = dict(run["args"])
            pairs.append((f"(sv_of_opt (sc_construct {S.coq_kvs(args)}))", opt_expected(run["sc"])))
            if run["sc"] is not None and "nm" in run:
                pairs.append((f"(sv_of_opt (sc_to_noise {S.coq_pv(run['sc'])}))", opt_expected(run["nm"])))
        elif k == "config":
            if "json" in run:
                inst, js = run["inst"], run["json"]
                dec = run.get("dec")
                for i, o in enumerate(inst["observables"]):
                    if "operator" in o:
                        pairs.append((f"(sv_of_pv (enc_operator {S.coq_pv(inst_operator(o['operator']))}))", f"(sv_of_pv {S.coq_pv(js['observables'][i]['operator'])})"))
                        if dec:
                            pairs.append((f"(sv_of_opt (dec_operator {S.coq_pv(js['observables'][i]['operator'])}))", some(inst_operator(dec["observables"][i]["operator"]))))
                    if "state" in o:
                        pairs.append((f"(sv_of_pv (enc_state {S.coq_pv(inst_state(o['state']))}))", f"(sv_of_pv {S.coq_pv(js['observables'][i]['state'])})"))
                        if dec:
                            pairs.append((f"(sv_of_opt (dec_state {S.coq_pv(js['observables'][i]['state'])}))", some(inst_state(dec["observables"][i]["state"]))))
                if inst.get("initial_state") is not None:
                    pairs.append((f"(sv_of_pv (enc_state {S.coq_pv(inst_state(inst['initial_state']))}))", f"(sv_of_pv {S.coq_pv(js['initial_state'])})"))
                    if dec:
                        pairs.append((f"(sv_of_opt (dec_state {S.coq_pv(js['initial_state'])}))", some(inst_state(dec["initial_state"]))))
                pairs.append((f"(sv_of_opt (enc_noise {S.coq_pv(inst['noise_model'])}))", some(js["noise_model"])))
                if dec:
                    pairs.append((f"(sv_of_opt (dec_noise {S.coq_pv(js['noise_model'])}))", some(dec["noise_model"])))
        elif k == "results":
            if "json" in run and "dec" in run:
                pairs.append((f"(sv_of_pv (enc_results {S.coq_pv(results_inst(run))}))", f"(sv_of_pv {S.coq_pv(run['json'])})"))
                pairs.append((f"(sv_of_opt (dec_results {S.coq_pv(run['json'])}))", some(results_dec_inst(run))))
        elif k == "history":
            # the model's decoders are functions of the JSON alone: any
            # dependence of the implementation on what was decoded before is a
            # mismatch
            for st in run["steps"]:
                if st["json"] is None:
                    continue
                if st["type"] == "layout":
                    pairs.append((f"(sv_of_opt (dec_layout {S.coq_pv(st['json'])}))", some(st["dec"])))
                elif st["type"] == "device":
                    pairs.append((f"(sv_of_opt (dec_dev {S.coq_pv(st['json'])}))", some(st["dec"])))
                elif st["type"] == "noise":
                    pairs.append((f"(sv_of_opt (dec_noise {S.coq_pv(st['json'])}))", some(st["dec"])))
        elif k == "alias" and run.get("cls") == "StateRepr" and run.get("built"):
            specs = case["spec"]["specs"][: run["built"]]
            seq = [specs[i] for i in range(len(specs))] + [specs[i] for i in run["decodes"]]
            terms = "[" + "; ".join(
                f"({S.coq_pv(s['eigenstates'])}, {S.coq_pv(S.neutral(c17_impl.cx(s['amplitudes'])))})" for s in seq
            ) + "]"
            n = len(specs)
            exp = "(SL [" + "; ".join(f"(sv_of_opt (Some (PInt {v})))" for v in run["n_qudits_final"]) + "])"
            pairs.append(
                (
                    f"(match build_states empty_heap {terms} with Some h => SL (map sv_of_opt (firstn {n} (nq_readings h))) | None => SL [] end)",
                    exp,
                )
            )
        return pairs

    def cases_file(self, items) -> str:
        out = [HEADER]
        for i, pairs in enumerate(items):
            body = "; ".join(f"({a}, {b})" for a, b in pairs)
            out.append(f"Definition p_{i} : list (sv * sv) := [{body}].")
        allp = "; ".join(f"both p_{i}" for i in range(len(items)))
        out.append(f"Definition all_pairs : list (sv * sv) := [{allp}].")
        out.append("Definition bad : list Z := Eval vm_compute in mismatches all_pairs.")
        out.append("Eval vm_compute in bad.")
        return "\n".join(out) + "\n"

    # ------------------------------------------------------------ evidence
    def nontrivial_key(self, case, run):
        if "invalid" in run:
            return None
        if run["kind"] == "noise" and run.get("init") is None:
            return None
        if run["kind"] == "alias" and run.get("built", 0) < 2:
            return None
        return json.dumps(case, sort_keys=True, default=str)

    def sample_of(self, case, run):
        return dict(kind=case["kind"], case=json.loads(json.dumps(case, default=str))) if len(json.dumps(case, default=str)) < 4000 else dict(kind=case["kind"])

    def stats(self, case, run, acc):
        k = acc.setdefault("cases_by_kind", {})
        k[case["kind"]] = k.get(case["kind"], 0) + 1
        if "invalid" in run or (run["kind"] == "noise" and run.get("init") is None):
            r = acc.setdefault("rejected_by_constructor", {})
            r[case["kind"]] = r.get(case["kind"], 0) + 1
        if run["kind"] == "device" and "inst" in run:
            d = acc.setdefault("devices", dict(virtual=0, physical=0, channels=0, eom=0, dmms=0, layouts=0, noise=0, foreign_ok=0, foreign_rejected=0))
            d["virtual" if case["spec"]["virtual"] else "physical"] += 1
            d["channels"] += len(run["inst"]["channel_objects"])
            d["eom"] += sum(1 for c in run["inst"]["channel_objects"] if c.get("eom_config"))
            d["dmms"] += len(run["inst"]["dmm_objects"])
            d["layouts"] += len(run["inst"].get("pre_calibrated_layouts", []))
            d["noise"] += 1 if run["inst"]["default_noise_model"] else 0
            for fv in run.get("foreign", []):
                d["foreign_ok" if fv[1] is not None else "foreign_rejected"] += 1
        if run["kind"] == "noise" and run.get("init"):
            t = acc.setdefault("noise_types", {})
            for nt in run["init"]["noise_types"]:
                t[nt] = t.get(nt, 0) + 1

    def focused_search(self, rng, broken, budget):
        return [self.gen_case(rng, "thorough") for _ in range(budget)]

    # ------------------------------------------------------------ extras
    def extra_checks(self, tier, rng):
        """fixed instances: the devices shipped with the tree round-trip"""
        import warnings

        v = []
        import pulser.devices as pd

        for name in ("MockDevice", "AnalogDevice", "DigitalAnalogDevice"):
            dev = getattr(pd, name, None)
            if dev is None:
                continue
            try:
                with warnings.catch_warnings():
                    warnings.simplefilter("ignore")
                    s = dev.to_abstract_repr()
                    d2 = type(dev).from_abstract_repr(s)
                a, b = S.snap_dataclass(dev), S.snap_dataclass(d2)
                for f in c17_impl.diff_fields(a, b):
                    if f != "short_description":
                        v.append(Violation(f"builtin-device:{name}:field-differs:{f}", f"{name}.{f} changes in a round trip", None))
            except Exception as e:  # noqa: BLE001
                v.append(Violation(f"builtin-device:{name}:roundtrip-raises", f"{type(e).__name__}: {e}"[:300], None))
        return v


CHECK = C17()
