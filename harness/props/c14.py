"""C14 - output modulation is an area-preserving low-pass and fall times
cover it.

Three kinds of generated cases (all randomness from the driver's rng):
  mod : Channel.modulate(x, keep_ends, eom) on raw sample arrays
  wf  : a pulse (amplitude + detuning waveform) on a channel: modulation
        buffers, trimmed modulated samples, fall time, tail of the isolated pulse
  seq : a built Sequence: sampler.sample(seq, modulation=True) per channel
Each case is (a) run on /repo with the property oracle evaluated on the real
outputs and (b) evaluated by the Coq model (Model/Modul.v via Model/ModulRun.v)
with the comparison done inside Coq.  extra_checks validates the oracle
hypotheses of the theorems on the implementation's impulse response."""
from __future__ import annotations

import json
import math
import random
import traceback
import warnings

import numpy as np

from harness import c14_lib as L
from harness import seqgen, seqimpl
from harness.common import coq_Z, coq_bool, coq_float, coq_list, coq_opt, sv
from harness.framework import PropCheck, Violation
from pulser import Pulse
from pulser.sampler import sample

BW_MOD = [8.0, 10.0, 13.0, 20.0, 25.0, 40.0, 50.0, 70.0, 100.0, 120.0, 160.0,
          240.0, 300.0, 400.0, 480.0, 48.0, 24.0, 16.0, 12.0, 9.6, 30.0, 60.0, 96.0]
BW_LOW = [1.0, 2.0, 2.5, 4.0, 5.0, 6.0]
BW_EOM = [40.0, 24.0, 60.0, 2.0, 120.0, 8.0, 100.0, 300.0]
GRID = [0.0, 0.125, 0.25, 0.5, 1.0, 1.5, 2.0, 3.0, 4.0, 6.0, 8.0, 20.0, 50.0]
COEF = [1.0, -1.0, 0.5, 2.0, -3.0, 0.0, 0.25]
MAX_N_COQ = 170  # largest padded length convolved inside Coq


def fl(x):
    return [float(v) for v in x]


# ------------------------------------------------------------------ generators
def gen_signal(rng, n, shape):
    if n == 0:
        return []
    if shape == "const":
        return [rng.choice(GRID[1:])] * n
    if shape == "zeros":
        return [0.0] * n
    if shape == "impulse":
        x = [0.0] * n
        x[rng.randrange(n)] = rng.choice(GRID[1:])
        return x
    if shape == "nonneg":
        return [rng.choice(GRID) for _ in range(n)]
    if shape == "signed":
        return [rng.choice(GRID) * rng.choice([1, -1]) for _ in range(n)]
    if shape == "ramp":
        a, b = rng.choice(GRID), rng.choice(GRID) * rng.choice([1, -1])
        return [a + (b - a) * i / max(1, n - 1) for i in range(n)]
    if shape == "negconst":
        return [-rng.choice(GRID[1:])] * n
    if shape == "tone":
        f = rng.choice([0.05, 0.1, 0.25, 0.5])
        return [math.cos(2 * math.pi * f * i) for i in range(n)]
    raise ValueError(shape)


def gen_mod(rng, tier):
    r = rng.random()
    if r < 0.06:
        bw = None
    elif r < 0.75:
        bw = rng.choice(BW_MOD)
    elif r < 0.85:
        bw = rng.choice(BW_LOW)
    else:
        bw = round(rng.uniform(6.0, 90.0), rng.choice([0, 1, 3]))
    eom_bw = None
    if bw is not None and rng.random() < 0.5:
        eom_bw = rng.choice(BW_EOM + [bw])
    n = rng.choice([0, 1, 1, 2, 3, 5, 8]) if rng.random() < 0.3 else rng.randint(4, 40)
    shape = rng.choice(["const", "const", "nonneg", "nonneg", "signed", "ramp", "impulse", "zeros", "negconst", "tone"])
    x = gen_signal(rng, n, shape)
    x2 = gen_signal(rng, n, rng.choice(["nonneg", "signed", "const", "ramp"]))
    eom = rng.random() < (0.4 if eom_bw is not None else 0.08)
    return dict(kind="mod", bw=bw, eom_bw=eom_bw, x=x, x2=x2, a=rng.choice(COEF), b=rng.choice(COEF),
                keep_ends=rng.random() < 0.35, eom=eom)


def gen_wfspec(rng, d, amp):
    r = rng.random()
    if r < 0.55:
        w = seqgen.gen_wf(rng, d, amp)
        if w["k"] == "ramp" and d < 2:
            w = dict(k="const", d=d, v=1.0)
        return w
    vals = GRID[1:]
    if r < 0.7:
        return dict(k="const", d=d, v=rng.choice(vals) * (1 if amp else rng.choice([1, -1])))
    if amp or r < 0.8 or d < 4:
        return dict(k="ramp", d=max(d, 2), a=rng.choice(GRID), b=rng.choice(vals)) if d >= 2 else dict(k="const", d=d, v=2.0)
    # detuning with a late sign change (the tail of the output crosses zero)
    m = rng.randint(1, max(1, d // 3))
    a, b = rng.choice(vals), rng.choice(vals)
    s = rng.choice([1, -1])
    return dict(k="custom", samples=[-s * a] * (d - m) + [s * b] * m)


def wf_dur(w):
    return seqgen.wf_dur(w)


def gen_wf(rng, tier):
    r = rng.random()
    if r < 0.6:
        bw = rng.choice(BW_MOD[:12] + [4.0, 5.0, 2.5, 8.0, 8.0, 40.0])
    elif r < 0.7:
        bw = rng.choice(BW_LOW)
    elif r < 0.75:
        bw = None
    else:
        bw = round(rng.uniform(3.0, 60.0), rng.choice([0, 1, 2]))
    eom_bw = rng.choice(BW_EOM[:6]) if (bw is not None and rng.random() < 0.5) else None
    d = rng.choice([1, 2, 3, 5]) if rng.random() < 0.15 else rng.randint(4, 220)
    amp = gen_wfspec(rng, d, True)
    d = wf_dur(amp)
    det = gen_wfspec(rng, d, False)
    if wf_dur(det) != d:
        det = dict(k="const", d=d, v=0.0)
    return dict(kind="wf", bw=bw, eom_bw=eom_bw, amp=amp, det=det)


def gen_seq(rng, tier):
    focus = rng.choice(["eom", "eom", None, "mix", "local"])
    if focus == "mix":
        focus = rng.choice(seqgen.FOCI)
    dev = seqgen.gen_device(rng, xy=rng.random() < 0.08, focus=focus)
    for c in dev["channels"]:
        if rng.random() < 0.45 and c.get("kind") != "Microwave":
            c["mod_bandwidth"] = rng.choice([4.0, 8.0, 40.0, 120.0, 2.5, 20.0, 100.0, 13.0])
        if c.get("mod_bandwidth") is not None and rng.random() < 0.4:
            c["custom_phase_jump_time"] = rng.choice([0, 0, 4, 7, 16, 40])
        if c.get("eom") is not None:
            if c.get("mod_bandwidth") is None:
                c["mod_bandwidth"] = 8.0
            if rng.random() < 0.5:
                c["eom"]["custom_buffer_time"] = rng.choice([None, 37, 240, 1, 1, 2, 3, 5])
    reg = seqgen.gen_register(rng)
    n = len(reg["ids"])
    maps = []
    for _ in range(2):
        w = [rng.choice([0.0, 0.25, 0.5, 1.0]) for _ in range(n)]
        if sum(w) == 0:
            w[0] = 1.0
        maps.append(w)
    case = dict(kind="seq", device=dev, register=reg, maps=maps, ops=[])
    n_ops = rng.randint(2, 16) if tier == "quick" else rng.randint(2, 40)
    case["ops"] = seqgen.gen_ops(rng, case, n_ops, 0.05, 0.03, focus=focus)
    # a last pulse followed by one to three short non-pulse slots (shorter
    # than its fall time): where get_duration's backwards scan has to look
    # behind the trailing slots
    decl = [o for o in case["ops"] if o["op"] == "declare"]
    specs = {c["id"]: c for c in dev["channels"]}
    if decl and rng.random() < 0.6:
        o = rng.choice(decl)
        spec = specs.get(o.get("channel_id"))
        if spec is not None:
            c, m = spec.get("clock_period", 1), spec.get("min_duration", 1)
            base = c * -(-m // c)
            dur = c * rng.randint(-(-max(m, 4) // c), -(-max(m, 4) // c) + 40)
            amp = rng.choice([0.5, 1.0, 2.0, 5.0])
            if rng.random() < 0.8:
                case["ops"].append(dict(op="add", channel=o["name"], protocol=rng.choice([0, 0, 1]),
                                        pulse=dict(amp=dict(k="const", d=dur, v=amp),
                                                   det=dict(k="const", d=dur, v=rng.choice([0.0, 0.0, -2.0, 3.0])),
                                                   phase=0.0, post=0.0)))
            for _ in range(rng.choice([1, 1, 2, 3])):
                case["ops"].append(dict(op="delay", channel=o["name"], duration=base * rng.choice([1, 1, 1, 2, 3])))
    return case


def gen_sched(rng, tier):
    """small sequences aimed at the scheduler's separation of pulses at the
    output: modulated channels (with and without EOM, custom phase jump
    times), the same channel declared twice (reusable device) or two
    channels sharing targets, phase changes, min-delay / wait-for-all."""
    def chan(i, kind, bw, eom, cpjt):
        c = dict(id=f"ch{i}", kind=kind, addressing="Global", clock_period=rng.choice([1, 1, 4]),
                 min_duration=rng.choice([1, 4, 16]), max_duration=10**8, mod_bandwidth=bw,
                 custom_phase_jump_time=cpjt, max_amp=None, max_abs_detuning=None, min_avg_amp=0)
        if eom is not None:
            c["eom"] = dict(mod_bandwidth=eom, custom_buffer_time=rng.choice([None, None, 37, 240]),
                            limiting_beam="RED", controlled_beams=["BLUE"], multiple_beam_control=True)
        return c

    bws = [4.0, 8.0, 8.0, 20.0, 40.0, 2.5]
    chans = [chan(0, "Rydberg", rng.choice(bws), rng.choice([None, 40.0, 24.0, 60.0, 40.0]),
                  rng.choice([None, 0, 0, 0, 7, 16, 40, 100]))]
    if rng.random() < 0.7:
        chans.append(chan(1, rng.choice(["Raman", "Rydberg", "Raman"]), rng.choice(bws + [None, None]),
                          None, rng.choice([None, 0, 16])))
        if chans[1]["kind"] == "Rydberg" and chans[1]["mod_bandwidth"] and rng.random() < 0.6:
            chans[1]["eom"] = dict(mod_bandwidth=rng.choice([40.0, 24.0]), custom_buffer_time=None,
                                   limiting_beam="RED", controlled_beams=["BLUE"], multiple_beam_control=True)
    dev = dict(channels=chans, dmms=[], max_sequence_duration=None, reusable=True, slm=False)
    n = rng.choice([1, 2, 3])
    reg = dict(ids=[f"q{i}" for i in range(n)], coords=[[10.0 * i, 0.0] for i in range(n)])
    names = []
    ops = []
    for k in range(rng.choice([2, 2, 3])):
        cid = rng.choice(chans)["id"]
        nm = "abcd"[k]
        names.append((nm, next(c for c in chans if c["id"] == cid)))
        ops.append(dict(op="declare", name=nm, channel_id=cid))
    in_eom = {nm: False for nm, _ in names}
    if len(names) >= 2 and rng.random() < 0.65:
        # both timelines start at 0: a pulse on the first channel, the second
        # one busy a little longer on the same atoms, then a pulse with a new
        # phase on the first: the cross-channel wait is shorter than the fall
        (na, sa), (nb, sb) = names[0], names[1]
        ca, cb = sa["clock_period"], sb["clock_period"]
        da = ca * rng.randint(max(4, -(-sa["min_duration"] // ca)), 80)
        x = rng.choice([4, 8, 16, 24, 40, 60, 100, 200])
        db = cb * -(-(da + x) // cb)
        mk = lambda d, v, ph: dict(amp=dict(k="const", d=d, v=v), det=dict(k="const", d=d, v=0.0), phase=ph, post=0.0)
        ops.append(dict(op="add", channel=na, protocol=0, pulse=mk(da, rng.choice([2.0, 5.0, 20.0]), 0.0)))
        ops.append(dict(op="add", channel=nb, protocol=1, pulse=mk(db, 1.0, 0.0)))
        ops.append(dict(op="add", channel=na, protocol=rng.choice([0, 0, 2]),
                        pulse=mk(da, rng.choice([2.0, 5.0]), rng.choice([math.pi / 2, 1.0, 0.0]))))

    def dur(spec):
        c = spec["clock_period"]
        return c * rng.randint(max(1, -(-spec["min_duration"] // c)), 90)

    for _ in range(rng.randint(3, 10) if tier == "quick" else rng.randint(3, 20)):
        nm, spec = rng.choice(names)
        r = rng.random()
        proto = rng.choice([0, 0, 0, 2, 1])
        phase = rng.choice([0.0, 0.0, math.pi / 2, 1.0, math.pi])
        if spec.get("eom") is not None and r < 0.2:
            if in_eom[nm]:
                ops.append(dict(op="disable_eom", channel=nm))
            else:
                ops.append(dict(op="enable_eom", channel=nm, amp_on=rng.choice([1.0, 2.0, 5.0]), det_on=0.0,
                                opt_off=0.0))
            in_eom[nm] = not in_eom[nm]
        elif r < 0.42 and len(names) >= 2:
            # bring channels to rest together, then play at once on one of them
            k = rng.randint(2, len(names))
            chs = [n for n, _ in rng.sample(names, k)]
            if len(set(chs)) >= 2:
                ops.append(dict(op="align", channels=chs, at_rest=rng.random() < 0.85))
                nm2, spec2 = rng.choice([x for x in names if x[0] in chs])
                if not in_eom[nm2] and rng.random() < 0.7:
                    d = dur(spec2)
                    ops.append(dict(op="add", channel=nm2, protocol=rng.choice([1, 1, 0]),
                                    pulse=dict(amp=dict(k="const", d=d, v=rng.choice([1.0, 5.0])),
                                               det=dict(k="const", d=d, v=0.0), phase=phase, post=0.0)))
        elif r < 0.5:
            spec_c = spec["clock_period"]
            ops.append(dict(op="delay", channel=nm, duration=spec_c * rng.randint(max(1, -(-spec["min_duration"] // spec_c)), 40)))
        elif in_eom[nm]:
            ops.append(dict(op="add_eom", channel=nm, duration=dur(spec), phase=phase, protocol=proto))
        else:
            d = dur(spec)
            amp = rng.choice([dict(k="const", d=d, v=rng.choice([1.0, 2.0, 5.0, 20.0])),
                              dict(k="const", d=d, v=rng.choice([1.0, 5.0])),
                              dict(k="ramp", d=max(d, 2), a=0.0, b=rng.choice([2.0, 8.0]))])
            d = wf_dur(amp)
            ops.append(dict(op="add", channel=nm, protocol=proto,
                            pulse=dict(amp=amp, det=dict(k="const", d=d, v=rng.choice([0.0, 0.0, -3.0])),
                                       phase=phase, post=0.0)))
    return dict(kind="seq", device=dev, register=reg, maps=[], ops=ops, ext_extra=rng.choice([None, None, None, 0, 100]))



def gen_eomseq(rng, tier):
    """one channel alternating standard-mode and EOM-mode segments: 0, 1, 2+
    EOM blocks, the first one at t=0 or later, ending on a pulse or a delay,
    in or out of EOM mode, sampled with and without extended_duration"""
    c = rng.choice([1, 1, 4])
    spec = dict(id="ch0", kind="Rydberg", addressing="Global", clock_period=c, min_duration=rng.choice([1, 4, 16]),
                max_duration=10**8, mod_bandwidth=rng.choice([4.0, 8.0, 8.0, 20.0]),
                custom_phase_jump_time=rng.choice([None, None, 0]), max_amp=None, max_abs_detuning=None, min_avg_amp=0,
                eom=dict(mod_bandwidth=rng.choice([40.0, 24.0, 60.0]), custom_buffer_time=rng.choice([None, None, 37]),
                         limiting_beam="RED", controlled_beams=["BLUE"], multiple_beam_control=True))
    chans = [spec]
    ops = [dict(op="declare", name="a", channel_id="ch0")]
    if rng.random() < 0.3:
        chans.append(dict(id="ch1", kind="Raman", addressing="Global", clock_period=1, min_duration=1, max_duration=10**8,
                          mod_bandwidth=rng.choice([None, 8.0]), max_amp=None, max_abs_detuning=None, min_avg_amp=0))
        ops.append(dict(op="declare", name="b", channel_id="ch1"))

    def dur(lo=1, hi=60):
        return c * rng.randint(max(lo, -(-spec["min_duration"] // c)), hi)

    eom_first = rng.random() < 0.5
    nseg = rng.choice([1, 2, 3, 3, 4, 5])
    for k in range(nseg):
        eom = (k % 2 == 0) == eom_first
        last = k == nseg - 1
        if eom:
            ops.append(dict(op="enable_eom", channel="a", amp_on=rng.choice([1.0, 2.0, 5.0]), det_on=0.0, opt_off=0.0))
            for _ in range(rng.choice([1, 1, 2, 3])):
                if rng.random() < 0.2:
                    ops.append(dict(op="delay", channel="a", duration=dur(1, 30)))
                else:
                    ops.append(dict(op="add_eom", channel="a", duration=dur(4, 60), phase=rng.choice([0.0, 0.0, 1.0]), protocol=0))
            if not last or rng.random() < 0.5:
                ops.append(dict(op="disable_eom", channel="a"))
        else:
            for _ in range(rng.choice([1, 1, 2])):
                d = dur(4, 80)
                amp = rng.choice([dict(k="const", d=d, v=rng.choice([1.0, 2.0, 5.0])),
                                  dict(k="ramp", d=max(d, 2), a=rng.choice([0.0, 3.0]), b=rng.choice([2.0, 8.0]))])
                d = wf_dur(amp)
                ops.append(dict(op="add", channel="a", protocol=0,
                                pulse=dict(amp=amp, det=dict(k="const", d=d, v=rng.choice([0.0, -2.0])),
                                           phase=rng.choice([0.0, 0.0, 1.0]), post=0.0)))
                if rng.random() < 0.25:
                    ops.append(dict(op="delay", channel="a", duration=dur(1, 30)))
        if len(chans) > 1 and rng.random() < 0.3:
            d = rng.randint(10, 120)
            ops.append(dict(op="add", channel="b", protocol=rng.choice([0, 1]),
                            pulse=dict(amp=dict(k="const", d=d, v=1.0), det=dict(k="const", d=d, v=0.0), phase=0.0, post=0.0)))
    if rng.random() < 0.3:
        ops.append(dict(op="delay", channel="a", duration=dur(1, 40)))
    return dict(kind="seq", device=dict(channels=chans, dmms=[], max_sequence_duration=None, reusable=True, slm=False),
                register=dict(ids=["q0", "q1"], coords=[[0.0, 0.0], [10.0, 0.0]]), maps=[], ops=ops,
                ext_extra=rng.choice([None, None, 0, 7, 50, 300]))



# ------------------------------------------------------------------ runners
def run_mod(case):
    viols = []

    def bad(sig, what, detail=None):
        viols.append(Violation(sig, what, case, detail))

    bw, eom_bw = case["bw"], case["eom_bw"]
    ch = L.build_chan(bw, eom_bw)
    x = np.array(case["x"], dtype=float)
    x2 = np.array(case["x2"], dtype=float)
    a, b = case["a"], case["b"]
    ke, eom = case["keep_ends"], case["eom"]
    tr = int(ch.rise_time)
    etr = int(ch.eom_config.rise_time) if ch.eom_config is not None else None
    run = dict(tr=tr, etr=etr, err=None, y=None, w=None, check=False)
    try:
        y = L.arr(ch.modulate(x, keep_ends=ke, eom=eom))
    except Exception as e:  # noqa: BLE001
        run["err"] = seqimpl.err_code(e)
        run["exc"] = repr(e)[:200]
        # the call is only allowed to fail for an EOM-less channel asked for
        # EOM modulation; edge-padding an empty array is numpy's refusal
        if not (eom and etr is None) and not (ke and x.size == 0):
            bad("modulate-raises", f"Channel.modulate raised {e!r}")
        return run, viols
    run["y"] = fl(y)
    sel_bw = eom_bw if eom else bw
    sel_tr = etr if eom else tr
    if not eom and not bw:
        if y.shape != x.shape or not np.array_equal(y, x):
            bad("no-bandwidth-changed", "channel without bandwidth changed the samples")
        return run, viols
    n = len(x)
    npad = n + 2 * sel_tr + (2 * tr if ke else 0)
    w = L.kernel(ch, npad, sel_bw) if npad > 0 else np.zeros(0)
    run["w"] = fl(w)
    run["check"] = 0 < npad <= MAX_N_COQ
    peak = float(np.max(np.abs(x))) if n else 0.0
    scale = max(1.0, peak, float(np.max(np.abs(x2))) if n else 0.0)
    run["tol"] = 1e-10 * scale
    # --- extends the signal by one rise time at each end
    if len(y) != n + 2 * sel_tr:
        bad("length", f"len(output)={len(y)} != len(input)+2*rise_time={n + 2 * sel_tr} (keep_ends={ke}, eom={eom})")
    if n == 0:
        return run, viols
    # --- linear
    y2 = L.arr(ch.modulate(x2, keep_ends=ke, eom=eom))
    ylin = L.arr(ch.modulate(a * x + b * x2, keep_ends=ke, eom=eom))
    dev = float(np.max(np.abs(ylin - (a * y + b * y2)))) if len(y) == len(y2) == len(ylin) else float("inf")
    if dev > L.REL * (abs(a) + abs(b) + 1) * scale:
        bad("linear", f"modulate(a x + b x') differs from a modulate(x) + b modulate(x') by {dev:g}")
    lo, hi = float(np.min(x)), float(np.max(x))
    tol = L.REL * max(1.0, peak)
    if not ke:
        # --- preserves the integral
        ds = abs(float(np.sum(y)) - float(np.sum(x)))
        if ds > L.REL * scale * max(1, npad):
            bad("integral", f"sum(output)-sum(input) = {ds:g}")
        if lo >= 0:
            under = -float(np.min(y))
            if under > tol:
                bad("nonneg" + L.leak_class(sel_bw, under / max(peak, 1e-300)),
                    f"non-negative input, output minimum {-under:g} (bandwidth {sel_bw} MHz)")
            over = float(np.max(y)) - hi
            if over > tol:
                bad("max" + L.leak_class(sel_bw, over / max(peak, 1e-300)),
                    f"output maximum exceeds the input maximum by {over:g} (bandwidth {sel_bw} MHz)")
    else:
        over = max(float(np.max(y)) - hi, lo - float(np.min(y)))
        if over > tol:
            bad("keep-ends-bounds" + L.leak_class(sel_bw, over / max(peak, 1e-300)),
                f"keep_ends output leaves [min, max] of the input by {over:g} (bandwidth {sel_bw} MHz)")
    return run, viols


def wf_arrays(ch, wf, has_eom):
    x = L.arr(wf.samples)
    out = dict(x=fl(x))
    out["mstd"] = fl(L.arr(wf._modulated_samples(ch, eom=False)))
    out["bs"] = [int(v) for v in wf.modulation_buffers(ch)]
    out["ms_std"] = fl(L.arr(wf.modulated_samples(ch)))
    try:
        out["meom"] = fl(L.arr(wf._modulated_samples(ch, eom=True)))
    except Exception as e:  # noqa: BLE001
        out["meom"] = None
    try:
        out["be"] = [0, [int(v) for v in wf.modulation_buffers(ch, eom=True)]]
    except Exception as e:  # noqa: BLE001
        out["be"] = [seqimpl.err_code(e)]
    try:
        out["ms_eom"] = fl(L.arr(wf.modulated_samples(ch, eom=True)))
    except Exception as e:  # noqa: BLE001
        out["ms_eom"] = None
    return out


def run_wf(case):
    viols = []

    def bad(sig, what, detail=None):
        viols.append(Violation(sig, what, case, detail))

    bw, eom_bw = case["bw"], case["eom_bw"]
    ch = L.build_chan(bw, eom_bw)
    amp = seqimpl.build_wf(case["amp"])
    det = seqimpl.build_wf(case["det"])
    pulse = Pulse(amp, det, 0.0)
    tr = int(ch.rise_time)
    etr = int(ch.eom_config.rise_time) if ch.eom_config is not None else None
    run = dict(tr=tr, etr=etr)
    run["amp"] = wf_arrays(ch, amp, etr is not None)
    run["det"] = wf_arrays(ch, det, etr is not None)
    run["fall_std"] = [0, int(pulse.fall_time(ch))]
    try:
        run["fall_eom"] = [0, int(pulse.fall_time(ch, in_eom_mode=True))]
    except Exception as e:  # noqa: BLE001
        run["fall_eom"] = [seqimpl.err_code(e)]
    if not bw:
        if run["fall_std"][1] != 0:
            bad("fall-without-bandwidth", "non-zero fall time on a channel without bandwidth")
        return run, viols
    modes = [(False, bw, tr, run["fall_std"][1])]
    square = case["amp"]["k"] == "const" and case["det"]["k"] == "const"
    if etr is not None and square and run["fall_eom"][0] == 0:
        modes.append((True, eom_bw, etr, run["fall_eom"][1]))
    for eom, sbw, str_, fall in modes:
        tag = "eom" if eom else "std"
        if not (str_ <= fall <= 2 * str_):
            bad("fall-range", f"{tag} fall time {fall} outside [rise, 2*rise] = [{str_}, {2 * str_}]")
            continue
        for name, wf in (("amplitude", amp), ("detuning", det)):
            x = L.arr(wf.samples)
            if not np.all(np.isfinite(x)):
                continue
            e = fall - str_
            tail = L.isolated_tail(ch, x, sbw, str_, e)
            thr = L.tail_threshold(x)
            if tail > thr * (1 + 1e-9):
                peak = float(np.max(np.abs(x)))
                if np.min(x) < 0 < np.max(x):
                    cls = ":sign-change"
                elif L.rise_truncated(sbw, str_):
                    cls = ":rise-time-truncated"
                elif L.h_nyquist(sbw) >= 1e-2 and tail <= 0.05 * peak:
                    cls = ":nyquist-leak"
                else:
                    cls = ""
                bad("tail" + cls,
                    f"{tag} {name}: isolated pulse output reaches {tail:g} beyond the fall time {fall} ns "
                    f"(> max(0.01, 0.6% of peak) = {thr:g}; bandwidth {sbw} MHz, rise {str_})")
    return run, viols


def chan_info(cs):
    ch = cs.channel_obj
    eom = None
    if ch.eom_config is not None:
        cbt = ch.eom_config.custom_buffer_time
        eom = [float(ch.eom_config.mod_bandwidth), None if cbt is None else int(cbt)]
    return dict(bw=None if ch.mod_bandwidth is None else float(ch.mod_bandwidth), eom=eom)


def _amp_of(slot):
    return L.arr(slot.type.amplitude.samples)


def _pulse_tail_at(cs, q, t_start):
    """max |modulated amplitude| of the isolated pulse slot q of channel
    schedule cs from sequence time t_start on (sampler convention: output
    index j of the modulated pulse sits at time q.ti + j), the threshold of
    the property and the fall time accounted for q in the mode it was played"""
    ch = cs.channel_obj
    in_eom = bool(cs.in_eom_mode(time_slot=q))
    bw = ch.eom_config.mod_bandwidth if in_eom else ch.mod_bandwidth
    tr = int(ch.eom_config.rise_time) if in_eom else int(ch.rise_time)
    fall = int(q.type.fall_time(ch, in_eom_mode=in_eom))
    x = _amp_of(q)
    thr = L.tail_threshold(x)
    if t_start >= q.tf + fall or not bw or not np.all(np.isfinite(x)) or not np.any(x):
        return 0.0, thr, fall
    e = max(t_start - q.tf - tr, -len(x))
    return L.isolated_tail(ch, x, bw, tr, e), thr, fall


def overlap_oracle(seq, op, case, upto):
    """'pulses separated by the scheduler do not overlap at the output':
    called right after a successful add / add_eom_pulse / add_dmm_detuning
    with a protocol other than 'no-delay'.  P = the pulse just scheduled.
    (a) every other channel's last non-zero pulse that shares a target with P
        (any pulse for 'wait-for-all') has decayed below max(0.01, 0.6% peak)
        at the output when P starts;
    (b) when P changes the phase with respect to the previous pulse of its own
        channel, that pulse has decayed at the output when P starts."""
    out = []
    name = op.get("channel")
    sched = seq._schedule
    if name not in sched:
        return out
    cs = sched[name]
    slots = list(cs.slots)
    if not slots or not isinstance(slots[-1].type, Pulse):
        return out
    p = slots[-1]
    if p.tf - p.ti != p.type.duration:
        return out
    proto = op.get("protocol", 0)
    sub = dict(case, ops=case["ops"][: upto + 1])
    for other, ocs in sched.items():
        if other == name or not ocs.channel_obj.mod_bandwidth:
            continue
        q = None
        for sl in reversed(list(ocs.slots)):
            if isinstance(sl.type, Pulse) and np.any(_amp_of(sl)):
                q = sl
                break
        if q is None or q.ti >= p.ti:
            continue
        if not (proto == 2 or (set(q.targets) & set(p.targets))):
            continue
        tail, thr, fall = _pulse_tail_at(ocs, q, p.ti)
        if tail > thr * (1 + 1e-9):
            ch = ocs.channel_obj
            slow = (ch.supports_eom() and ch.eom_config.rise_time > ch.rise_time
                    and bool(ocs.in_eom_mode(time_slot=q)))
            out.append(Violation(
                "overlap:cross-channel" + (":eom-slower-than-channel" if slow else ""),
                f"pulse on {name!r} starts at {p.ti} while the output of the pulse [{q.ti},{q.tf}] on {other!r} "
                f"(shared targets, accounted fall time {fall}) is still {tail:g} > {thr:g}", sub))
    if not op.get("correct", False) and cs.channel_obj.mod_bandwidth:
        prev = None
        for sl in reversed(slots[:-1]):
            if isinstance(sl.type, Pulse) and not cs.is_detuned_delay(sl.type):
                prev = sl
                break
        if prev is not None:
            dphi = (float(p.type.phase) - float(prev.type.phase)) % (2 * math.pi)
            if 1e-6 < dphi < 2 * math.pi - 1e-6:
                tail, thr, fall = _pulse_tail_at(cs, prev, p.ti)
                if tail > thr * (1 + 1e-9):
                    ch = cs.channel_obj
                    slow = (ch.supports_eom() and ch.eom_config.rise_time > ch.rise_time
                            and bool(cs.in_eom_mode(time_slot=prev)))
                    out.append(Violation(
                        "overlap:phase-jump" + (":eom-slower-than-channel" if slow else ""),
                        f"pulse with a new phase on {name!r} starts at {p.ti} while the output of the previous pulse "
                        f"[{prev.ti},{prev.tf}] (accounted fall time {fall}, phase jump time "
                        f"{cs.channel_obj.phase_jump_time}) is still {tail:g} > {thr:g}", sub))
    return out



def align_oracle(seq, op, case, upto):
    """after a successful align(..., at_rest=True) the aligned channels are at
    rest: from the earliest moment any of them can play again (the smallest
    of their durations) on, the modulated output of the last pulse of every
    aligned channel is below max(0.01, 0.6% of its peak)."""
    out = []
    sched = seq._schedule
    names = [n for n in op.get("channels", []) if n in sched]
    if len(names) < 2:
        return out
    t_common = min(int(sched[n].get_duration()) for n in names)
    sub = dict(case, ops=case["ops"][: upto + 1])
    for n in names:
        cs = sched[n]
        if not cs.channel_obj.mod_bandwidth:
            continue
        q = None
        for sl in reversed(list(cs.slots)):
            if isinstance(sl.type, Pulse) and np.any(_amp_of(sl)):
                q = sl
                break
        if q is None:
            continue
        tail, thr, fall = _pulse_tail_at(cs, q, t_common)
        if tail > thr * (1 + 1e-9):
            ch = cs.channel_obj
            slow = (ch.supports_eom() and ch.eom_config.rise_time > ch.rise_time
                    and bool(cs.in_eom_mode(time_slot=q)))
            out.append(Violation(
                "overlap:align" + (":eom-slower-than-channel" if slow else ""),
                f"after align({', '.join(names)}, at_rest=True) a channel can play again at {t_common} while the output of "
                f"the pulse [{q.ti},{q.tf}] on {n!r} (accounted fall time {fall}) is still {tail:g} > {thr:g}", sub))
    return out



def reference_mod_amp(ch, amp, blocks, cut):
    """Expected modulated amplitude of a channel, from the raw samples and the
    documented rule, without pulser.sampler.samples: outside EOM mode the
    output is the amplitude with the EOM blocks blanked, filtered with the
    channel bandwidth; inside an EOM block and for two EOM rise times after
    it (and beyond the end of the samples if they end there) it is the whole
    amplitude filtered with the EOM bandwidth.  Channel.modulate is the
    function tied to the Coq model by the 'mod' cases.  blocks: [(ti, tf|None)]"""
    amp = np.asarray(amp, dtype=float)
    d = len(amp)
    if not blocks:
        return L.arr(ch.modulate(amp))[:cut]
    etr = int(ch.eom_config.rise_time)
    std_in = amp.copy()
    in_eom = np.zeros(d, dtype=bool)
    for ti, tf in blocks:
        end = tf if tf else d
        std_in[ti:(tf if tf is not None else d)] = 0.0
        in_eom[ti:end + 2 * etr] = True
    m_std = L.arr(ch.modulate(std_in))
    m_eom = L.arr(ch.modulate(amp, eom=True))
    n = max(len(m_std), len(m_eom))
    sel = np.concatenate([in_eom, np.full(n - d, in_eom[-1])])
    a = np.concatenate([m_std, np.zeros(n - len(m_std))])
    b = np.concatenate([m_eom, np.zeros(n - len(m_eom))])
    return np.where(sel, b, a)[:cut]



def run_seq(case):
    viols = []

    def bad(sig, what, detail=None):
        viols.append(Violation(sig, what, case, detail))

    n_sep = [0]
    n_al = [0]

    def hook(i, op, seq_, out, exc):
        if exc is None and op["op"] in ("add", "add_eom", "add_dmm") and op.get("protocol", 0 if op["op"] != "add_dmm" else 1) in (0, 2):
            n_sep[0] += 1
            viols.extend(overlap_oracle(seq_, op, case, i))
        if exc is None and op["op"] == "align" and op.get("at_rest", True) and not seq_.is_parametrized():
            n_al[0] += 1
            viols.extend(align_oracle(seq_, op, case, i))

    r = seqimpl.run_case(case, hook)
    seq = r["seq"]
    run = dict(outcomes=[t[0][0] for t in r["trace"][:-1]], chans=[], plain=None, whole=None, separated=n_sep[0], aligned=n_al[0])
    if seq.is_parametrized():
        run["plain"] = "parametrized"
        return run, viols
    try:
        sample(seq)
        run["plain"] = 0
    except Exception as e:  # noqa: BLE001
        run["plain"] = seqimpl.err_code(e)
    try:
        whole = sample(seq, modulation=True)
        run["whole"] = 0
    except Exception as e:  # noqa: BLE001
        whole = None
        run["whole"] = seqimpl.err_code(e)
        run["whole_exc"] = repr(e)[:200]
    if run["plain"] != 0:
        return run, viols
    # --- values of the modulated amplitude against the independent reference,
    #     without and (when the case asks for it) with extended_duration
    if whole is not None:
        variants = [(None, whole)]
        if case.get("ext_extra") is not None:
            ext = int(seq.get_duration(include_fall_time=True)) + int(case["ext_extra"])
            if ext > 0:
                variants.append((ext, sample(seq, modulation=True, extended_duration=ext)))
        plain_s = sample(seq)
        for ext, res in variants:
            for name, cs in seq._schedule.items():
                ch = cs.channel_obj
                a0 = L.arr(plain_s.channel_samples[name].amp)
                if not ch.mod_bandwidth or len(a0) == 0 or not np.all(np.isfinite(a0)):
                    continue
                blocks = [(int(b.ti), None if b.tf is None else int(b.tf)) for b in cs.eom_blocks]
                if ext is not None:
                    a0 = np.concatenate([a0, np.zeros(ext - len(a0))])
                    cut = ext
                else:
                    cut = int(cs.get_duration(include_fall_time=True))
                got = L.arr(res.channel_samples[name].amp)
                for key in ("amp", "det", "phase"):
                    if ext is not None and len(getattr(res.channel_samples[name], key)) != ext:
                        bad("modulated-length:extended",
                            f"channel {name!r}: with extended_duration={ext} the {key} array has length "
                            f"{len(getattr(res.channel_samples[name], key))}")
                exp = reference_mod_amp(ch, a0, blocks, cut)
                peak = max(1.0, float(np.max(np.abs(a0))))
                if len(got) != len(exp):
                    if ext is not None:
                        bad("sampled-amplitude", f"channel {name!r}: {len(got)} samples, reference has {len(exp)} (extended_duration={ext})")
                    continue  # without extension the length clauses below report it
                dev = float(np.max(np.abs(got - exp))) if len(exp) else 0.0
                if dev > L.REL * peak:
                    k = int(np.argmax(np.abs(got - exp)))
                    bad("sampled-amplitude",
                        f"channel {name!r} ({len(blocks)} EOM block(s) {blocks}, extended_duration={ext}): modulated amplitude "
                        f"differs from the reference by {dev:g} at t={k} (got {got[k]:g}, expected {exp[k]:g})")
    for name, cs in seq._schedule.items():
        info = chan_info(cs)
        ch = cs.channel_obj
        kwargs = dict(ignore_detuned_delay_phase=True)
        if hasattr(cs, "detuning_map"):
            kwargs["qubits"] = seq.register.qubits
        s = cs.get_samples(**kwargs)
        d = int(cs.get_duration())
        D = int(cs.get_duration(include_fall_time=True))
        # the slots as get_duration reads them (newest first) and, NOT through
        # get_duration, where the channel's output really ends: the end of
        # the last pulse plus its fall time, or the end of the last slot
        in_eom = bool(cs.in_eom_mode())
        slots = []
        D_exp = d
        seen_pulse = False
        for sl in reversed(list(cs.slots)):
            if isinstance(sl.type, Pulse):
                f = int(sl.type.fall_time(ch, in_eom_mode=in_eom))
                slots.append([True, int(sl.tf), f])
                if not seen_pulse:
                    seen_pulse = True
                    D_exp = max(d, int(sl.tf) + f)
            else:
                slots.append([False, int(sl.tf), 0])
        info.update(name=name, d=d, D=D, D_exp=D_exp, slots=slots, blocks=len(s.eom_blocks))
        if D != D_exp:
            slow_eom = ch.supports_eom() and in_eom and ch.eom_config.rise_time > ch.rise_time
            bad("duration-with-fall" + (":eom-slower-than-channel" if slow_eom else ""),
                f"channel {name!r}: get_duration(include_fall_time=True) = {D}, but the last pulse ends at "
                f"{D_exp} including its fall time (rise {ch.rise_time}, phase jump {ch.phase_jump_time})")
        try:
            if whole is not None:
                # what sampler.sample(seq, modulation=True) itself returned
                m = whole.channel_samples[name]
            else:
                # sample() raised (for some channel): this channel on its own,
                # exactly as sampler.sample calls it
                m = s.modulate(ch, max_duration=D)
            info["out"] = [0, [len(m.amp), len(m.det), len(m.phase)]]
        except Exception as e:  # noqa: BLE001
            m = None
            info["out"] = [seqimpl.err_code(e)]
            info["exc"] = repr(e)[:160]
        run["chans"].append(info)
        if m is None:
            cls = ""
            if d == 0 and ch.mod_bandwidth and info["out"][0] == 1:
                cls = ":empty-channel"
            elif (info["blocks"] > 0 and ch.eom_config is not None and info["out"][0] == 5
                  and ch._eom_buffer_mod_bandwidth > 480.0):
                cls = ":eom-buffer-bandwidth"
            bad("modulated-sampling-fails" + cls,
                f"channel {name!r}: plain sampling succeeds, modulated sampling raises {info.get('exc')} "
                f"(duration {d}, bandwidth {ch.mod_bandwidth}, EOM blocks {info['blocks']})")
            continue
        if info["out"][1] != [D_exp, D_exp, D_exp]:
            slow_eom = ch.supports_eom() and in_eom and ch.eom_config.rise_time > ch.rise_time
            bad("modulated-length" + (":eom-slower-than-channel" if slow_eom and D != D_exp else ""),
                f"channel {name!r}: modulated arrays have lengths {info['out'][1]}, the channel ends at {D_exp} "
                f"including the fall time of its last pulse (get_duration reports {D})")
        # value clauses on channels that never used EOM mode
        if ch.mod_bandwidth and info["blocks"] == 0 and d > 0:
            a0 = L.arr(s.amp)
            a1 = L.arr(m.amp)
            peak = float(np.max(np.abs(a0)))
            if peak > 0 and np.min(a0) >= 0:
                under = -float(np.min(a1))
                if under > L.REL * peak:
                    bad("nonneg" + L.leak_class(ch.mod_bandwidth, under / peak),
                        f"channel {name!r}: modulated amplitude goes down to {-under:g}")
                over = float(np.max(a1)) - peak
                if over > L.REL * peak:
                    bad("max" + L.leak_class(ch.mod_bandwidth, over / peak),
                        f"channel {name!r}: modulated amplitude exceeds the input maximum by {over:g}")
            if D == d + 2 * ch.rise_time:
                ds = abs(float(np.sum(a1)) - float(np.sum(a0)))
                if ds > L.REL * max(1.0, peak) * len(a1):
                    bad("integral", f"channel {name!r}: modulated amplitude area differs by {ds:g}")
    if (run["whole"] == 0) != all(c["out"][0] == 0 for c in run["chans"]):
        bad("sampler-inconsistent", "sample(modulation=True) and the per-channel modulation disagree on success")
    return run, viols


# ------------------------------------------------------------------ Coq emission
def cfl(xs):
    return coq_list(coq_float(v) for v in xs)


def optf(x):
    return coq_opt(x, coq_float)


def item_mod(case, run):
    exp = [run["tr"], [] if run["etr"] is None else [run["etr"]],
           [run["err"]] if run["err"] is not None else [0, len(run["y"])], True]
    check = bool(run.get("check")) and run["err"] is None
    model = "(run_mod %s %s %s %s %s %s %s %s %s)" % (
        optf(case["bw"]), optf(case["eom_bw"]), cfl(case["x"]), coq_bool(case["keep_ends"]),
        coq_bool(case["eom"]), cfl(run["w"] if check else []), coq_bool(check),
        cfl(run["y"] if check else []), coq_float(run.get("tol", 0.0)))
    return model, sv(exp)


def sv_floats(xs):
    return "(SL [" + "; ".join("SF " + coq_float(v) for v in xs) + "])"


def item_wf(case, run):
    models, exps = [], []
    for key in ("amp", "det"):
        a = run[key]
        models.append("(run_wf %s %s %s %s %s)" % (
            optf(case["bw"]), optf(case["eom_bw"]), cfl(a["x"]), cfl(a["mstd"]),
            "None" if a["meom"] is None else "(Some " + cfl(a["meom"]) + ")"))
        exps.append("(SL [%s; %s; %s; %s])" % (
            sv([0, a["bs"]]), sv(a["be"]), sv_floats(a["ms_std"]),
            sv_floats(a["ms_eom"]) if a["ms_eom"] is not None else "(SL [])"))
    ea, ed = run["amp"]["bs"][1], run["det"]["bs"][1]
    models.append("(run_fall %s %s false %s %s)" % (optf(case["bw"]), optf(case["eom_bw"]), coq_Z(ea), coq_Z(ed)))
    exps.append(sv(run["fall_std"]))
    if run["amp"]["be"][0] == 0 and run["det"]["be"][0] == 0:
        ea, ed = run["amp"]["be"][1][1], run["det"]["be"][1][1]
    else:
        ea, ed = 0, 0
    if run["etr"] is not None or not case["bw"]:
        models.append("(run_fall %s %s true %s %s)" % (optf(case["bw"]), optf(case["eom_bw"]), coq_Z(ea), coq_Z(ed)))
        exps.append(sv(run["fall_eom"]))
    return "(SL [" + "; ".join(models) + "])", "(SL [" + "; ".join(exps) + "])"


def item_seq(case, run):
    models, exps = [], []
    for c in run["chans"]:
        eom = "None"
        if c["eom"] is not None:
            eom = "(Some (%s, %s))" % (coq_float(c["eom"][0]), coq_opt(c["eom"][1], coq_Z))
        slots = coq_list("mk_slot %s %s %s" % (coq_bool(k), coq_Z(tf), coq_Z(f)) for k, tf, f in c["slots"])
        models.append("(run_seq %s %s %s %s %s)" % (coq_Z(c["d"]), slots, optf(c["bw"]), eom, coq_Z(c["blocks"])))
        exps.append("(SL [%s; %s])" % (sv(c["D"]), sv(c["out"])))
    return "(SL [" + "; ".join(models) + "])", "(SL [" + "; ".join(exps) + "])"


HEADER = """From Coq Require Import ZArith List Bool.
From Coq Require Import Uint63 FloatOps SpecFloat PrimFloat.
From PV Require Import Model.Base Model.Sched Model.Chan Model.Modul Model.ModulRun.
Import ListNotations.
Open Scope Z_scope.
"""


# ------------------------------------------------------------------ the check
class C14(PropCheck):
    id = "C14"
    props_file = "Props/C14.v"
    extra_targets = ["Model/ModulRun.v"]  # imported by the generated case files
    quick_cases = 600
    thorough_cases = 4000
    shard = 24
    assumptions = [
        "numpy/scipy FFT with the Gaussian transfer function of Channel.apply_modulation acts as the circular "
        "convolution with its impulse response (validated per case to 1e-10 by direct convolution inside Coq)",
        "the impulse response is non-negative, of unit sum, symmetric, halves a tone at the bandwidth and has "
        "tail mass <= 0.6% beyond one rise time: validated per run on a sweep of bandwidths and lengths; "
        "NOT true for bandwidths above ~100 MHz (known findings) nor where int() shortens the rise time",
        "0 < rise_time whenever a bandwidth is set (checked bit-exactly at the largest accepted bandwidth)",
    ]
    trusted_base_extra = [
        "numpy/scipy FFT (impulse response of apply_modulation enters the model as an oracle input)",
        "harness/seqgen.py + harness/seqimpl.py for building the sampled sequences",
    ]

    def gen_case(self, rng: random.Random, tier: str):
        r = rng.random()
        if r < 0.36:
            return gen_mod(rng, tier)
        if r < 0.62:
            return gen_wf(rng, tier)
        if r < 0.76:
            return gen_seq(rng, tier)
        if r < 0.88:
            return gen_eomseq(rng, tier)
        return gen_sched(rng, tier)

    def run_impl(self, case):
        k = case["kind"]
        with warnings.catch_warnings():
            warnings.simplefilter("ignore")
            try:
                if k == "mod":
                    return run_mod(case)
                if k == "wf":
                    return run_wf(case)
                if k == "seq":
                    return run_seq(case)
                if k == "kernel":
                    return {}, check_kernel(case)
                if k == "tone":
                    return {}, check_tone(case)
            except Exception as e:  # noqa: BLE001
                # every call the runners make outside a try block succeeds on
                # the unchanged tree for every generated input; an exception
                # here is the implementation misbehaving, not infrastructure
                return dict(crashed=repr(e)[:300]), [
                    Violation("implementation-raises:" + k,
                              f"an operation that must succeed raised {e!r}"[:400], case,
                              traceback.format_exc()[-1500:])
                ]
        raise ValueError(k)

    def coq_item(self, case, run):
        k = case["kind"]
        if run.get("crashed"):
            return "(SL [])", "(SL [])"
        if k == "mod":
            return item_mod(case, run)
        if k == "wf":
            return item_wf(case, run)
        if k == "seq":
            if run["plain"] != 0:
                return "(SL [])", "(SL [])"
            return item_seq(case, run)
        return "(SL [])", "(SL [])"

    def cases_file(self, items) -> str:
        out = [HEADER]
        for i, (m, e) in enumerate(items):
            out.append(f"Definition m{i} : sv := {m}.\nDefinition e{i} : sv := {e}.\n")
        pairs = "; ".join(f"(m{i}, e{i})" for i in range(len(items)))
        out.append(f"Definition bad : list Z := mismatches [{pairs}].\nEval vm_compute in bad.\n")
        return "\n".join(out)

    def nontrivial_key(self, case, run):
        k = case["kind"]
        if run.get("crashed"):
            return None
        if k == "mod" and (not case["bw"] or not case["x"] or run.get("err") is not None):
            return None
        if k == "wf" and not case["bw"]:
            return None
        if k == "seq" and not any(c["d"] > 0 and c["bw"] for c in run.get("chans", [])):
            return None
        return json.dumps(case, sort_keys=True, default=str)

    def sample_of(self, case, run):
        if run.get("crashed"):
            return dict(case=case, crashed=run["crashed"])
        if case["kind"] == "seq":
            return dict(kind="seq", device=case["device"], ops=case["ops"], channels=run.get("chans"))
        if case["kind"] == "mod":
            return dict(case=case, rise=run.get("tr"), eom_rise=run.get("etr"), out_len=len(run["y"]) if run.get("y") else None)
        return dict(case=case, fall_std=run.get("fall_std"), fall_eom=run.get("fall_eom"),
                    buffers=[run["amp"]["bs"], run["det"]["bs"]])

    def stats(self, case, run, acc):
        k = case["kind"]
        h = acc.setdefault("kinds", {})
        h[k] = h.get(k, 0) + 1
        if run.get("crashed"):
            acc["crashed"] = acc.get("crashed", 0) + 1
            return
        if k == "mod":
            b = acc.setdefault("mod", {})
            for key, val in (("keep_ends", case["keep_ends"]), ("eom", case["eom"]),
                             ("raised", run.get("err") is not None), ("convolved_in_coq", bool(run.get("check")))):
                if val:
                    b[key] = b.get(key, 0) + 1
            bw = acc.setdefault("bandwidths", {})
            bw[str(case["bw"])] = bw.get(str(case["bw"]), 0) + 1
        elif k == "wf":
            b = acc.setdefault("wf", {})
            for key in ("amp", "det"):
                kk = case[key]["k"]
                b[kk] = b.get(kk, 0) + 1
            e = run["fall_std"][1] - run["tr"]
            hist = acc.setdefault("end_buffer", {})
            key = "0" if e == 0 else ("tr" if e == run["tr"] else "between")
            hist[key] = hist.get(key, 0) + 1
        elif k == "seq":
            b = acc.setdefault("seq", {})
            b["plain_" + str(run["plain"])] = b.get("plain_" + str(run["plain"]), 0) + 1
            b["pulses_separated_by_scheduler"] = b.get("pulses_separated_by_scheduler", 0) + run.get("separated", 0)
            b["aligns_at_rest"] = b.get("aligns_at_rest", 0) + run.get("aligned", 0)
            for c in run.get("chans", []):
                key = "chan_ok" if c["out"][0] == 0 else f"chan_err{c['out'][0]}"
                b[key] = b.get(key, 0) + 1
                if c["blocks"]:
                    b["chan_with_eom_blocks"] = b.get("chan_with_eom_blocks", 0) + 1
                if c["d"] == 0:
                    b["chan_empty"] = b.get("chan_empty", 0) + 1

    def extra_checks(self, tier, rng):
        viols = []
        bws = [1.0, 2.5, 4.0, 8.0, 10.0, 13.0, 20.0, 40.0, 50.0, 70.0, 85.0, 100.0, 120.0, 160.0, 240.0, 300.0, 480.0]
        if tier != "quick":
            bws += [round(rng.uniform(1.0, 90.0), 2) for _ in range(40)]
        with warnings.catch_warnings():
            warnings.simplefilter("ignore")
            for bw in bws:
                tr = L.nominal_rise(bw)
                for n in (2 * tr + 1, 2 * tr + 9, 8 * tr + 64):
                    viols += check_kernel(dict(kind="kernel", bw=bw, n=n, shift=rng.randrange(n)))
            for bw in [1.0, 2.5, 4.0, 5.0, 8.0, 10.0, 20.0, 40.0, 100.0, 120.0]:
                viols += check_tone(dict(kind="tone", bw=bw, phase=rng.choice([0.0, 0.5, 1.0, 2.0])))
        return viols

    def focused_search(self, rng, broken, budget):
        return [self.gen_case(rng, "quick") for _ in range(budget)]


# ------------------------------------------------------------------ oracle hypotheses
def check_kernel(case):
    """the hypotheses the theorems make about the impulse response"""
    viols = []

    def bad(sig, what):
        viols.append(Violation(sig, what, case))

    bw, n, s = case["bw"], case["n"], case.get("shift", 0)
    ch = L.build_chan(bw)
    tr = int(ch.rise_time)
    w = L.kernel(ch, n, bw)
    if abs(float(np.sum(w)) - 1.0) > 1e-12:
        bad("kernel:sum", f"impulse response sums to {float(np.sum(w))!r} (bandwidth {bw}, {n} samples)")
    if n > 1 and float(np.max(np.abs(w[1:] - w[1:][::-1]))) > 1e-12:
        bad("kernel:asymmetric", f"impulse response is not symmetric (bandwidth {bw}, {n} samples)")
    x = np.zeros(n)
    x[s] = 1.0
    ws = L.arr(ch.apply_modulation(x, bw))
    if float(np.max(np.abs(ws - np.roll(w, s)))) > 1e-12:
        bad("kernel:shift-variant", f"response to a shifted impulse is not the shifted response (bandwidth {bw}, {n} samples)")
    neg = float(-np.sum(w[w < 0]))
    if neg > L.REL:
        bad("nonneg" + L.leak_class(bw, neg), f"impulse response has negative weights of total mass {neg:g} (bandwidth {bw}, {n} samples)")
    if n >= 8 * tr + 64:
        tm = float(np.sum(w[tr + 1: n // 2]))
        if tm > 0.006:
            cls = ":rise-time-truncated" if L.rise_truncated(bw, tr) else (":nyquist-leak" if L.h_nyquist(bw) >= 1e-2 and tm <= 0.05 else "")
            bad("tail" + cls, f"kernel mass beyond one rise time ({tr} ns) is {tm:.5f} > 0.6% (bandwidth {bw})")
    return viols


def check_tone(case):
    """halves the amplitude of a tone at the modulation bandwidth"""
    viols = []
    bw, ph = case["bw"], case.get("phase", 0.0)
    f = bw * 1e-3
    ch = L.build_chan(bw)
    tr = int(ch.rise_time)
    period = None
    for n in range(1, 2001):
        if abs(f * n - round(f * n)) < 1e-12 and round(f * n) >= 1:
            period = n
            break
    if period is None:
        return viols
    reps = max(1, -(-(16 * tr + 32) // period))
    n = period * reps
    t = np.arange(n)
    x = np.cos(2 * math.pi * f * t + ph)
    # periodic tone through the transfer function itself
    y = L.arr(ch.apply_modulation(x, bw))
    dev = float(np.max(np.abs(y - 0.5 * x)))
    if dev > 1e-9:
        viols.append(Violation("tone:not-halved", f"periodic tone at {bw} MHz: output differs from half the input by {dev:g}", case))
    # the same tone through Channel.modulate (zero padded): steady-state part
    ym = L.arr(ch.modulate(x))
    mid = slice(7 * tr, n - 7 * tr)
    if n - 14 * tr > period:
        dev = float(np.max(np.abs(ym[tr:tr + n][mid] - 0.5 * x[mid])))
        if dev > 1e-6 + 2 * L.h_nyquist(bw):
            viols.append(Violation("tone:not-halved", f"tone at {bw} MHz through Channel.modulate: steady state differs from half the input by {dev:g}", case))
    return viols


CHECK = C14()
