"""C08 - building a parametrized sequence equals direct construction."""
from __future__ import annotations

import json
import random

from harness import c08_gen, c08_run
from harness.framework import PropCheck, VERIF


class C08(PropCheck):
    id = "C08"
    props_file = "Props/C08.v"
    quick_cases = 260
    thorough_cases = 4000
    shard = 25
    assumptions = [
        "numpy's transcendental functions and float power enter the model as oracle tables (same function, same argument bits)",
        "whether a concrete call raises inside the sequence builder (scheduling, device limits) is taken from the run; the parametrized layer itself is modelled",
        "values stay inside int64 / below 2^53 where numpy and Z agree",
    ]

    def gen_case(self, rng: random.Random, tier: str):
        return c08_gen.gen_case(rng, tier)

    def run_impl(self, case):
        return c08_run.run_case(case)

    def coq_item(self, case, run):
        return c08_run.Emit(case, run).terms()

    def cases_file(self, items):
        return c08_run.cases_file(items)

    def nontrivial_key(self, case, run):
        if not run["param_ops"]:
            return None
        if not any(b["out"] == 0 and b.get("direct_ok") for b in run["builds"]):
            return None
        return json.dumps({k: case[k] for k in ("heap", "ops", "builds")}, sort_keys=True, default=str)

    def sample_of(self, case, run):
        return dict(vars=case["vars"], heap=case["heap"][:12], ops=case["ops"][:8], builds=case["builds"],
                    template_outcomes=run["touts"], build_outcomes=[b["out"] for b in run["builds"]])

    def stats(self, case, run, acc):
        acc["cases"] = acc.get("cases", 0) + 1
        acc["mappable"] = acc.get("mappable", 0) + (1 if case.get("mappable") else 0)
        acc["template_calls"] = acc.get("template_calls", 0) + len(case["ops"])
        acc["template_calls_with_variables"] = acc.get("template_calls_with_variables", 0) + len(run["param_ops"])
        acc["template_calls_raising"] = acc.get("template_calls_raising", 0) + sum(1 for t in run["touts"] if t)
        acc["heap_nodes"] = acc.get("heap_nodes", 0) + len(case["heap"])
        kinds = acc.setdefault("node_classes", {})
        for n in case["heap"]:
            k = n["k"] if n["k"] != "op" else f"op{n['cls']}"
            kinds[k] = kinds.get(k, 0) + 1
        b = acc.setdefault("builds", {})
        for spec, obs in zip(case["builds"], run["builds"]):
            key = f"{spec.get('mode', '?')}:{'ok' if obs['out'] == 0 else 'err' + str(obs['out']) + '/' + obs['origin']}"
            b[key] = b.get(key, 0) + 1
        acc["builds_equal_to_direct"] = acc.get("builds_equal_to_direct", 0) + sum(
            1 for o in run["builds"] if o["out"] == 0 and o.get("direct_ok"))
        acc["oracle_function_applications"] = acc.get("oracle_function_applications", 0) + len(run["otable"])


CHECK = C08()
