"""C19 - layouts number traps canonically; registers, maps and layouts agree."""
from __future__ import annotations

import itertools
import json

from harness import c19_gen, c19_impl
from harness.common import coq_Z, fhex, sv
from harness.framework import PropCheck, Violation

HEADER = """From Coq Require Import ZArith List Bool.
From Coq Require Import PrimFloat.
From PV Require Import Model.Base Model.TrapMap.
Import ListNotations.
Open Scope Z_scope.
"""


def _fl(x) -> str:
    return "(" + fhex(float(x)) + ")"


def _coord(c) -> str:
    return "[" + "; ".join(_fl(v) for v in c) + "]"


def _coords(l) -> str:
    return "[" + "; ".join(_coord(c) for c in l) + "]"


def _zs(l) -> str:
    return "[" + "; ".join(coq_Z(z) for z in l) + "]"


def _zz(l) -> str:
    return "[" + "; ".join(f"({coq_Z(a)}, {coq_Z(b)})" for a, b in l) + "]"


def _zf(l) -> str:
    return "[" + "; ".join(f"({coq_Z(a)}, {_fl(b)})" for a, b in l) + "]"


def _fs(l) -> str:
    return "[" + "; ".join(_fl(v) for v in l) + "]"


def coq_case(c) -> str:
    return (
        "(mkCase "
        + " ".join(
            [
                "(" + _coords(c["coords"]) + " : list (list float))",
                "(" + _coords(c["coords2"]) + " : list (list float))",
                _zs(c["ids"]),
                _zs(c["qids"]),
                "(" + _coords(c["lookup"]) + " : list (list float))",
                _zs(c["decl"]),
                _zz(c["chosen"]),
                "(" + _coords(c["wcoords"]) + " : list (list float))",
                "(" + _fs(c["weights"]) + " : list float)",
                "(" + _coords(c["wcoords2"]) + " : list (list float))",
                "(" + _fs(c["weights2"]) + " : list float)",
                "(" + _coords(c["wpos"]) + " : list (list float))",
                "(" + _zf(c["ldm"]) + " : list (Z * float))",
                "(" + _zf(c["rdm"]) + " : list (Z * float))",
                "([" + "; ".join(f"({coq_Z(q)}, {_coord(p)})" for q, p in c.get("direct", [])) + "] : list (Z * list float))",
                _zs(c.get("dids", [])),
            ]
        )
        + ")"
    )


# small fixed layouts whose every permutation is checked (implementation + oracle)
SWEEP = [
    [[0.0, 0.0], [0.0, 5.0], [5.0, 0.0], [5.0, 5.0]],
    [[1.0, 2.0], [1.0, -2.0], [-3.5, 2.0], [1.0000004, 7.0], [0.9999996, -7.0]],
    [[0.0, 0.0, 1.0], [0.0, 0.0, -1.0], [0.0, 2.0, 0.0], [-4.0, 2.0, 0.0]],
    [[-1e-9, 3.0], [0.0, 2.0], [4e-7, 1.0], [-4e-7, 0.0]],
]


class C19(PropCheck):
    id = "C19"
    props_file = "Props/C19.v"
    shard = 60
    quick_cases = 1000
    thorough_cases = 12000
    assumptions = [
        "coordinates and weights are finite floats (no NaN/inf); |coordinate| < 2^52 * 1e-6 um",
        "numpy's round, lexsort, unique, isclose and sum behave as documented (modelled by their specification, "
        "bit-exact on every case of the run)",
        "sha256 is a function of its input bytes (the model stops at the hash input; the harness checks on every "
        "case that static_hash() is sha256 of exactly that input)",
        "theorems are closed for coordinates on an arbitrary decimal sub-grid of 1e-6 um (exact arithmetic); the "
        "IEEE-double instance of the same generic model is what runs against the implementation",
    ]
    trusted_base_extra = [
        "numpy (round, lexsort, unique, isclose, sum) as the primitives under the modelled code",
        "harness/c19_impl.py oracle (exact rational distances; numpy.round as rounding primitive)",
    ]

    def gen_case(self, rng, tier):
        return c19_gen.gen_case(rng, tier)

    def run_impl(self, case):
        return c19_impl.run(case)

    def coq_item(self, case, run):
        return coq_case(case), sv(run["out"])

    def cases_file(self, items) -> str:
        out = [HEADER]
        for i, (c, e) in enumerate(items):
            out.append(f"Definition c_{i} : tcase := {c}.")
            out.append(f"Definition e_{i} : sv := {e}.")
        pairs = "[" + "; ".join(f"(run_case c_{i}, e_{i})" for i in range(len(items))) + "]"
        out.append(f"Definition all_pairs : list (sv * sv) := {pairs}.")
        out.append("Definition bad : list Z := Eval vm_compute in mismatches all_pairs.")
        out.append("Eval vm_compute in bad.")
        out.append(
            "Eval vm_compute in map (fun i => match nth_error all_pairs (Z.to_nat i) with"
            " Some (a, b) => first_diff a b | None => -2 end) bad."
        )
        return "\n".join(out) + "\n"

    def nontrivial_key(self, case, run):
        info = run["info"]
        if info.get("A_ok") and (info.get("reg_ok") or info.get("wm_ok") or info.get("mreg_ok")):
            return json.dumps(case, sort_keys=True)
        return None

    def sample_of(self, case, run):
        return dict(case=case, outcome=run["info"])

    def stats(self, case, run, acc):
        info = run["info"]
        for k in ("style", "variant"):
            d = acc.setdefault(k, {})
            d[str(case.get(k))] = d.get(str(case.get(k)), 0) + 1
        d = acc.setdefault("dim", {})
        d[str(case.get("dim"))] = d.get(str(case.get("dim")), 0) + 1
        o = acc.setdefault("outcomes", {})
        for k, v in info.items():
            if k.startswith("history_"):
                o[k] = o.get(k, 0) + int(v)
            elif v:
                o[k] = o.get(k, 0) + 1
        o["cases"] = o.get("cases", 0) + 1

    def replay(self, payload: dict) -> int:
        """accepts a replay written by the driver or a bare case (corpus file);
        exit 1 iff the named signature (or, for a bare case, any violation) is
        reproduced on the tree under verification"""
        case = payload.get("case") if "case" in payload else (payload if "coords" in payload else None)
        if case is None:
            print("replay file names a broken obligation, no input to run:")
            print(json.dumps(payload.get("broken"), indent=1))
            return 1
        want = payload.get("signature")
        _, viols = self.run_impl(case)
        hit = False
        for v in viols:
            mine = want is None or v.signature == want
            print(("REPRODUCED: " if mine else "also seen: ") + v.signature, "-", v.what[:300])
            hit = hit or mine
        if not hit:
            print("not reproduced" + (f": {want}" if want else ""))
        return 1 if hit else 0

    def extra_checks(self, tier, rng):
        """every permutation of a few small layouts (with a detuning map on
        them) through the implementation and the oracle"""
        viols: list[Violation] = []
        for base in SWEEP:
            n = len(base)
            ws = [0.25 * i / n + 0.125 for i in range(n)]
            perms = list(itertools.permutations(range(n)))
            if tier == "quick" and len(perms) > 24:
                perms = perms[:: len(perms) // 24]
            for p in perms:
                c2 = [base[i] for i in p]
                case = dict(
                    style="sweep", variant="perm", dim=len(base[0]), coords=base, coords2=c2,
                    ids=list(p), qids=[], lookup=[base[p[0]]], decl=list(range(n)),
                    chosen=[[i, p[i]] for i in range(n)], wcoords=base, weights=ws, wcoords2=c2,
                    weights2=[ws[i] for i in p], wpos=[base[p[-1]]],
                    ldm=[[i, ws[i]] for i in p], rdm=[[i, ws[p[i]]] for i in range(n)],
                    direct=[], dids=[], history=(p == perms[0] or p == perms[-1]),
                )
                _, v = c19_impl.run(case)
                viols += v
        return viols


CHECK = C19()
