"""C01 - every scheduled pulse respects the limits of its channel and device."""
from __future__ import annotations

import math

import numpy as np

from harness.framework import Violation
from harness.seqprop import SeqProp, slots_of
from pulser import Pulse
from pulser.channels import DMM
from pulser.waveforms import (
    BlackmanWaveform,
    ConstantWaveform,
    InterpolatedWaveform,
    KaiserWaveform,
    RampWaveform,
)

TOL = 1e-6  # the implementation rounds detunings to 6 decimals before comparing


def arr(wf):
    return np.asarray(wf.samples.as_array(detach=True), dtype=float)


def defining(wf):
    """defining parameters a change of duration must preserve"""
    if isinstance(wf, KaiserWaveform):
        return ("kaiser", float(wf._area), float(wf._beta))
    if isinstance(wf, BlackmanWaveform):
        return ("blackman", float(wf._area))
    if isinstance(wf, ConstantWaveform):
        return ("const", float(wf._value))
    if isinstance(wf, RampWaveform):
        return ("ramp", float(wf._start), float(wf._stop))
    if isinstance(wf, InterpolatedWaveform):
        vals = wf._values
        vals = vals.as_array(detach=True) if hasattr(vals, "as_array") else vals
        return ("interp", tuple(float(x) for x in np.asarray(vals, dtype=float)))
    return (type(wf).__name__,)


def has_unit_ramp(op):
    def walk(w):
        if not isinstance(w, dict):
            return False
        if w.get("k") == "ramp" and w.get("d") == 1:
            return True
        return any(walk(p) for p in w.get("parts", []))

    p = op.get("pulse") or {}
    return walk(p.get("amp")) or walk(p.get("det")) or walk(op.get("wf"))


class C01(SeqProp):
    id = "C01"
    props_file = "Props/C01.v"
    focus = "limits"
    quick_cases = 800
    thorough_cases = 6000
    assumptions = [
        "the model sees a pulse through its sample summary (max amplitude, max |detuning|, average, min/max detuning): computed by numpy on the implementation's own sample arrays",
        "channel parameters satisfy what Channel.__post_init__ enforces (clock_period > 0, min_duration > 0)",
    ]

    def pick_focus(self, rng):
        return rng.choice(["limits", "limits", "limits", None, "eom", "dmm"])

    def oracle_init(self, case):
        return dict(prev={})

    def oracle_step(self, st, i, op, seq, out, exc, case):
        v = []

        unit_ramp = has_unit_ramp(op)
        # the SLM mask's detuning pulse is sized from the amplitudes already scheduled on the
        # global channels: a NaN sample scheduled earlier (same input class) propagates into it
        if exc is None and unit_ramp and op["op"] in ("add", "add_dmm", "add_eom"):
            st["unit_ramp_scheduled"] = True
        via_slm = st.get("unit_ramp_scheduled", False) and (
            op["op"] == "config_slm" or any(o["op"] == "config_slm" for o in case["ops"][:i]))
        unit_ramp = unit_ramp or via_slm

        def bad(sig, what):
            # RampWaveform(1, a, b) is a NaN sample: every limit comparison on it is
            # False, so whatever symptom follows belongs to that one known input class
            if unit_ramp and not sig.startswith("non-finite-samples") and sig.split(":")[0] in (
                "amplitude-above-max", "detuning-above-max", "average-below-min", "dmm-positive-detuning",
                "dmm-below-bottom", "dmm-below-total-bottom", "pulse-changed", "pulse-not-only-lengthened"):
                sig = "non-finite-samples:ramp-of-duration-1"
            v.append(Violation(sig, what, dict(case, ops=case["ops"][: i + 1])))

        cur = slots_of(seq)
        maxseq = seq._schedule.max_duration
        for name, slots in cur.items():
            ch = seq._schedule[name].channel_obj
            prev = st["prev"].get(name, [])
            for s in slots[len(prev):]:
                if maxseq is not None and s.tf > maxseq:
                    bad("over-device-max", f"channel {name}: instruction ends at {s.tf} > max_sequence_duration {maxseq}")
                if not isinstance(s.type, Pulse):
                    continue
                p = s.type
                a, d = arr(p.amplitude), arr(p.detuning)
                if not (np.all(np.isfinite(a)) and np.all(np.isfinite(d))):
                    sig = "non-finite-samples"
                    if unit_ramp:
                        sig += ":ramp-of-duration-1"
                    bad(sig, f"channel {name}: scheduled pulse has non-finite samples")
                    continue
                dur = s.tf - s.ti
                if dur != p.duration or len(a) != dur or len(d) != dur:
                    bad("pulse-length", f"channel {name}: slot {dur} vs pulse {p.duration} vs samples {len(a)}/{len(d)}")
                if dur % ch.clock_period != 0:
                    bad("duration-not-clock-multiple", f"channel {name}: pulse of {dur} ns, clock {ch.clock_period}")
                if dur < ch.min_duration:
                    bad("duration-below-min", f"channel {name}: pulse of {dur} ns < min_duration {ch.min_duration}")
                if ch.max_duration is not None and dur > ch.max_duration:
                    sig = "duration-above-max"
                    if ch.max_duration % ch.clock_period != 0 and dur - ch.max_duration < ch.clock_period:
                        sig += ":max-not-clock-multiple"
                    bad(sig, f"channel {name}: pulse of {dur} ns > max_duration {ch.max_duration}")
                if ch.max_amp is not None and np.any(a > ch.max_amp):
                    bad("amplitude-above-max", f"channel {name}: max amplitude {a.max()} > {ch.max_amp}")
                if ch.max_abs_detuning is not None and np.any(np.abs(d) > ch.max_abs_detuning + TOL):
                    bad("detuning-above-max", f"channel {name}: max |det| {np.abs(d).max()} > {ch.max_abs_detuning}")
                avg = float(np.average(a))
                if avg != 0 and avg < ch.min_avg_amp * (1 - 1e-9):
                    # "nor below the minimum average when non-zero" (a negative average included)
                    bad("average-below-min", f"channel {name}: average amplitude {avg} < {ch.min_avg_amp}")
                if isinstance(ch, DMM):
                    w = np.asarray(seq._schedule[name].detuning_map.weights, dtype=float)
                    if np.any(d > TOL):
                        bad("dmm-positive-detuning", f"DMM {name}: detuning {d.max()} > 0")
                    if ch.bottom_detuning is not None and np.max(w) * d.min() < ch.bottom_detuning - TOL:
                        bad("dmm-below-bottom", f"DMM {name}: {np.max(w) * d.min()} < bottom {ch.bottom_detuning}")
                    if ch.total_bottom_detuning is not None and np.sum(w) * d.min() < ch.total_bottom_detuning - TOL * max(1, len(w)):
                        bad("dmm-below-total-bottom", f"DMM {name}: {np.sum(w) * d.min()} < total bottom {ch.total_bottom_detuning}")
        # the pulse of this very call: accepted unchanged / only lengthened; rejected only for cause
        if op["op"] in ("add", "add_dmm") and isinstance(op.get("channel"), str) and op["channel"] in seq._schedule:
            name = op["channel"]
            ch = seq._schedule[name].channel_obj
            try:
                from harness import seqimpl

                if op["op"] == "add":
                    pin = seqimpl.build_pulse(op["pulse"])
                else:
                    pin = Pulse.ConstantAmplitude(0, seqimpl.build_wf(op["wf"]), 0)
            except Exception:  # noqa: BLE001
                pin = None
            if pin is not None and exc is None:
                s = seq._schedule[name].slots[-1]
                if isinstance(s.type, Pulse):
                    c = ch.clock_period
                    want = -(-pin.duration // c) * c
                    if s.type.duration != want:
                        bad("duration-not-next-multiple", f"channel {name}: requested {pin.duration}, scheduled {s.type.duration}, clock {c}")
                    if pin.duration % c == 0:
                        if not (
                            np.array_equal(arr(s.type.amplitude), arr(pin.amplitude), equal_nan=True)
                            and np.array_equal(arr(s.type.detuning), arr(pin.detuning), equal_nan=True)
                        ):
                            bad("pulse-changed", f"channel {name}: a pulse of clock-multiple duration was altered when scheduled")
                    else:
                        if defining(s.type.amplitude) != defining(pin.amplitude) or defining(s.type.detuning) != defining(pin.detuning):
                            bad("pulse-not-only-lengthened", f"channel {name}: lengthening changed the waveform parameters: {defining(pin.amplitude)} -> {defining(s.type.amplitude)}")
            via_mask = False
            tb = exc.__traceback__ if exc is not None else None
            while tb is not None:
                if tb.tb_frame.f_code.co_name == "_modulate_slm_mask_dmm":
                    # the refusal concerns the SLM mask's own detuning pulse on the DMM (its channel's
                    # limits), not the pulse being added: not a judgement on this pulse's limits
                    via_mask = True
                tb = tb.tb_next
            if pin is not None and isinstance(exc, ValueError) and not via_mask:
                msg = str(exc)
                a, d = arr(pin.amplitude), arr(pin.detuning)
                fin = np.all(np.isfinite(a)) and np.all(np.isfinite(d))
                if fin and "amplitude goes over the maximum" in msg and not (ch.max_amp is not None and np.any(a > ch.max_amp)):
                    bad("rejected-within-limits:amplitude", f"channel {name}: rejected for amplitude, max {a.max()} <= {ch.max_amp}")
                if fin and "detuning values go out of the range" in msg and not (
                    ch.max_abs_detuning is not None and np.any(np.abs(d) > ch.max_abs_detuning - TOL)
                ):
                    bad("rejected-within-limits:detuning", f"channel {name}: rejected for detuning, max |det| {np.abs(d).max()} <= {ch.max_abs_detuning}")
                if fin and "average amplitude is below" in msg and not (0 < float(np.average(a)) < ch.min_avg_amp):
                    bad("rejected-within-limits:average", f"channel {name}: rejected for average amplitude {np.average(a)} (min {ch.min_avg_amp})")
                if "duration has to be at least" in msg and not pin.duration < ch.min_duration:
                    bad("rejected-within-limits:min-duration", f"channel {name}: {pin.duration} >= {ch.min_duration}")
                if "duration can be at most" in msg and not (ch.max_duration is not None and pin.duration > ch.max_duration):
                    # not the pulse: the automatic delay in front of it is itself an
                    # instruction longer than the channel's max_duration
                    own = seq._schedule[name].get_duration()
                    others = [own]
                    for n2, cs2 in seq._schedule.items():
                        if n2 != name:
                            others.append(cs2.get_duration(include_fall_time=True))
                    for bref in seq._basis_ref.values():
                        others += [int(r.phase.last_time) for r in bref.values()]
                    try:
                        cs = seq._schedule[name]
                        lps = cs.last_pulse_slot(ignore_detuned_delay=True)
                        ie = cs.in_eom_mode()
                        pj = max(ch.phase_jump_time, 2 * ch.rise_time * ie) + lps.type.fall_time(ch, in_eom_mode=ie) - (own - lps.tf)
                        others.append(own + pj)
                    except RuntimeError:
                        pass
                    sig = "rejected-within-limits:max-duration"
                    if ch.max_duration is not None and max(others) - own > ch.max_duration - ch.clock_period - ch.min_duration:
                        sig += ":automatic-delay-longer-than-max"
                    bad(sig, f"channel {name}: pulse of {pin.duration} <= max_duration {ch.max_duration} rejected")
        st["prev"] = cur
        return v


CHECK = C01()
