"""C05 - the emulated Hamiltonian equals the documented formula."""
from __future__ import annotations

import json
import math
import random

from harness import c05_gen, c05_impl
from harness.common import coq_Z, coq_bool, coq_float, coq_list, sv
from harness.framework import PropCheck, Violation

HEADER = """From Coq Require Import ZArith List Bool.
From Coq Require Import Uint63 FloatOps SpecFloat PrimFloat.
From PV Require Import Model.Base Model.Ham Model.HamF.
Import ListNotations.
"""


def nat(x) -> str:
    return f"{int(x)}%nat"


def Z(x) -> str:
    return coq_Z(x) + "%Z"


def pair(*xs) -> str:
    return "(" + ", ".join(xs) + ")"


def fchan_term(c) -> str:
    slots = coq_list(
        pair(pair(Z(ti), Z(tf)), coq_list(nat(q) for q in tg)) for ti, tf, tg in c["slots"]
    )
    return (
        "{| fc_global := %s; fc_dmm := %s; fc_basis := %s; fc_nonempty := %s; fc_dur := %s;"
        " fc_slots := %s; fc_w := %s; fc_eom := %s; fc_last := %s |}"
        % (
            coq_bool(c["glob"]), coq_bool(c["dmm"]), nat(c["basis"]), coq_bool(c["nonempty"]),
            Z(c["dur"]), slots, coq_list(coq_float(x) for x in c["w"]),
            coq_list(pair("None" if tf is None else "(Some %s)" % Z(tf), coq_float(d)) for tf, d in c.get("eom", [])),
            pair(coq_float(c["last"][0]), coq_float(c["last"][1])),
        )
    )


def ftime_term(run, tm) -> str:
    t = tm["t"]
    vals = []
    for c in run["chans"]:
        if t < c["dur"]:
            ph = float(c["ph"][t])
            vals.append(pair(coq_float(c["amp"][t]), coq_float(c["det"][t]),
                             pair(coq_float(math.cos(ph)), coq_float(math.sin(ph)))))
        else:
            vals.append(pair("zero", "zero", pair("one", "zero")))
    H = coq_list(pair(nat(i), nat(j), pair(coq_float(re), coq_float(im))) for i, j, re, im in tm["H"])
    return "{| ft_k := %s; ft_vals := %s; ft_H := %s |}" % (Z(tm["k"]), coq_list(vals), H)


def fcase_term(run) -> str:
    return (
        "{| f_n := %s; f_coords := %s; f_c6 := %s; f_c3 := %s; f_mag := %s; f_chans := %s;"
        " f_mask := %s; f_mask_end := %s; f_tot := %s; f_rate := %s; f_times := %s |}"
        % (
            nat(run["n"]),
            coq_list(pair(*(coq_float(x) for x in c)) for c in run["coords"]),
            coq_float(run["c6"]), coq_float(run["c3"]),
            pair(*(coq_float(x) for x in run["mag"])),
            coq_list(fchan_term(c) for c in run["chans"]),
            coq_list(nat(q) for q in run["mask"]), Z(run["mask_end"]), Z(run["tot"]),
            coq_float(run["rate"]), coq_list(ftime_term(run, tm) for tm in run["times"]),
        )
    )


class C05(PropCheck):
    id = "C05"
    props_file = "Props/C05.v"
    quick_cases = 400
    thorough_cases = 4000
    shard = 30
    assumptions = [
        "exp(-i phi), C6/R^6, cos(theta) and the spline evaluation of QobjEvo at a knot are numpy/QuTiP results; "
        "the float model recomputes them and entries are compared with tolerance 1e-9*(1+max|H|)",
        "the sequence builder is taken as given: the oracle reads the programmed pulses from the schedule",
        "noiseless emulator (all_local=False path of to_nested_dict); output modulation and EOM mode on Local channels are not generated (EOM on the Global Rydberg channel is)",
    ]
    trusted_base_extra = [
        "harness/c05_impl.py oracle: numpy kron reading of the documented formula",
    ]

    def gen_case(self, rng: random.Random, tier: str):
        return c05_gen.gen_case(rng, tier)

    def run_impl(self, case):
        return c05_impl.run_case(case, Violation)

    def coq_item(self, case, run):
        if run["status"] in ("empty", "too-few-samples", "history-not-clean"):
            return None
        if run["status"] == "raises":
            exp = sv([True])
        else:
            exp = sv([False, run["dim"], run["basis"], run["m"],
                      [[tm["t"], True] for tm in run["times"]]])
        return fcase_term(run), exp

    def cases_file(self, items) -> str:
        out = [HEADER]
        pairs = []
        for i, it in enumerate(items):
            if it is None:
                pairs.append("(SB true, SB true)")
                continue
            out.append(f"Definition case_{i} : fcase := {it[0]}.")
            out.append(f"Definition exp_{i} : sv := {it[1]}.")
            pairs.append(f"(run_case case_{i}, exp_{i})")
        out.append("Definition all_pairs : list (sv * sv) := %s." % coq_list(pairs))
        out.append("Definition bad : list Z := Eval vm_compute in mismatches all_pairs.")
        out.append("Eval vm_compute in bad.")
        return "\n".join(out) + "\n"

    def nontrivial_key(self, case, run):
        if run["status"] != "ok" or not run["times"]:
            return None
        return json.dumps(case, sort_keys=True, default=str)

    def sample_of(self, case, run):
        return dict(case=case, status=run["status"], dim=run.get("dim"), basis=run.get("basis"),
                    times=[tm["t"] for tm in run.get("times", [])])

    def stats(self, case, run, acc):
        def inc(group, key):
            g = acc.setdefault(group, {})
            g[str(key)] = g.get(str(key), 0) + 1

        inc("status", run["status"])
        inc("profile", case.get("profile"))
        inc("mode", "xy" if case["xy"] else "ising")
        inc("atoms", len(case["atoms"]) + len(case.get("extra_atoms", [])))
        inc("register_dim", len(case["atoms"][0][1]))
        labels = [a[0] for a in case["atoms"]]
        inc("atom_labels", "str" if all(isinstance(x, str) for x in labels)
            else ("int:position" if labels == list(range(len(labels)))
                  else ("int:permutation" if sorted(labels) == list(range(len(labels))) else "int:arbitrary")))
        inc("rate", case["rate"])
        inc("config_history_steps", len(case.get("history") or []))
        for (how, kw), res in zip(case.get("history") or [], run.get("history") or []):
            inc("config_history_calls", how + ":" + ("-" if kw is None else "+".join(kw.get("noise", [])) or "none")
                + (":eta>0" if kw and kw.get("eta", 0) > 0 else "") + ":" + res)
        inc("path", "constructor" if (case.get("direct") or case.get("extra_atoms")) else "from_sequence")
        if run["status"] == "ok":
            inc("levels", run["dim"])
            acc["hamiltonians_compared"] = acc.get("hamiltonians_compared", 0) + len(run["times"])
            inc("skipped_ops", len(run.get("skipped", [])))

    def focused_search(self, rng, broken, budget):
        return [self.gen_case(rng, "thorough") for _ in range(min(budget, 300))]


CHECK = C05()
