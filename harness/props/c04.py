"""C04 - sequence serialisation round-trips and is schema-valid.

Oracle (direct reading of the property on the real outputs): the abstract
representation of every generated sequence validates under the published
schema, deserialises, and the reconstructed sequence behaves identically
(device, register, channels, timelines, pulses, phase references,
measurement; for parametrized / mappable sequences the same built sequence -
or the same failure - for every assignment); serialising the reconstruction
gives the same document; the legacy encoder/decoder gives the same guarantee.

Correspondence (Model/AbsRepr.v evaluated by vm_compute): the model's
encoding of the call log equals the implementation's document; the model's
decoding of that document equals the calls the real deserializer issued; the
specification [norm_seq] of those calls equals them too; the Coq schema
validator over the regenerated schema agrees with jsonschema on the document
and on perturbed documents."""
from __future__ import annotations

import copy
import json
import random
import warnings

from harness import c04_gen, c04_impl as impl
from harness.common import Infra
from harness.framework import PropCheck, Violation


def canon(j):
    return json.dumps(j, sort_keys=True)


def canon_sets(j):
    """canonical text of a legacy document, Python sets as sorted lists"""

    def walk(x):
        if isinstance(x, dict):
            if x.get("__name__") == "set" and x.get("__module__") == "builtins":
                return {**x, "__args__": [sorted(x["__args__"][0], key=str)]}
            return {k: walk(v) for k, v in x.items()}
        if isinstance(x, list):
            return [walk(v) for v in x]
        return x

    return canon(walk(j))


def perturbations(doc: dict, rng: random.Random, k: int = 3):
    """structurally perturbed copies of a document (outside device/layout)"""
    out = []
    ops = doc.get("operations", [])
    cands = []

    def P(f):
        cands.append(f)

    P(lambda d: d.pop("version"))
    P(lambda d: d.__setitem__("version", "2"))
    P(lambda d: d.__setitem__("extra_key", 1))
    P(lambda d: d.__setitem__("measurement", "nope"))
    P(lambda d: d.__setitem__("name", 3))
    P(lambda d: d.__setitem__("magnetic_field", [0.0, 1.0]))
    P(lambda d: d.__setitem__("magnetic_field", [0.0, 1.0, 2]))
    P(lambda d: d.__setitem__("slm_mask_targets", ["q0", 3]))
    P(lambda d: d["register"].append({"name": "zz"}))
    P(lambda d: d.__setitem__("variables", {"v": {"type": "bool", "value": [0]}}))
    P(lambda d: d.__setitem__("variables", {"v": {"type": "int"}}))
    P(lambda d: d.__setitem__("channels", {"a": 3}))
    P(lambda d: d["operations"].append({"op": "nope"}))
    P(lambda d: d["operations"].append({"op": "delay", "channel": "a", "time": {"expression": "round", "lhs": {"variable": "x"}}}))
    P(lambda d: d["operations"].append({"op": "delay", "channel": "a", "time": {"expression": "rnd", "lhs": 1}}))
    P(lambda d: d["operations"].append({"op": "align", "channels": ["a"], "at_rest": 1}))
    P(lambda d: d["operations"].append({"op": "target", "channel": "a", "target": [0, {"variable": "x"}]}))
    P(lambda d: d["operations"].append({"op": "phase_shift", "phi": 0, "targets": [], "basis": "xy"}))
    if ops:
        i = rng.randrange(len(ops))
        keys = list(ops[i])
        kk = rng.choice(keys)
        P(lambda d: d["operations"][i].pop(kk))
        P(lambda d: d["operations"][i].__setitem__("zz", 0))
        P(lambda d: d["operations"][i].__setitem__(kk, None))
        P(lambda d: d["operations"][i].__setitem__(kk, [d["operations"][i][kk]]))
        P(lambda d: d["operations"][i].__setitem__(kk, "min-delay"))
        P(lambda d: d["operations"][i].__setitem__(kk, 1.5))
    for f in rng.sample(cands, min(k, len(cands))):
        d = copy.deepcopy(doc)
        try:
            f(d)
        except Exception:  # noqa: BLE001
            continue
        out.append(d)
    return out


_VALIDATOR = None


def schema_ok(doc: dict) -> bool:
    """reference verdict: jsonschema (draft 7) on the published schema files,
    independently of the implementation's validate_abstract_repr"""
    global _VALIDATOR
    if _VALIDATOR is None:
        import jsonschema
        from pulser.json.abstract_repr import SCHEMAS
        from referencing import Registry, Resource

        reg = Registry().with_resources(
            [(n + "-schema.json", Resource.from_contents(SCHEMAS[n])) for n in ("device", "layout", "register", "noise")]
        )
        _VALIDATOR = jsonschema.Draft7Validator(SCHEMAS["sequence"], registry=reg)
    return _VALIDATOR.is_valid(doc)


def impl_schema_ok(doc: dict) -> bool:
    """the implementation's own validation entry point"""
    from pulser.json.abstract_repr.validation import validate_abstract_repr

    try:
        validate_abstract_repr(json.dumps(doc), "sequence")
        return True
    except Exception:  # noqa: BLE001
        return False


def exc_site(e: BaseException) -> str:
    """stable description of where inside pulser an exception was raised"""
    import re
    import traceback

    site = "?"
    for fr in reversed(traceback.extract_tb(e.__traceback__)):
        if "/pulser/" in fr.filename:
            site = fr.filename.rsplit("/", 1)[-1][:-3] + "." + fr.name
            break
    m = re.search(r"'([A-Za-z_][A-Za-z_0-9.]*)'", str(e))
    name = type(e).__name__
    if (name in ("AbstractReprError", "SerializationSupportClassMissing") or site == "serializer.abstract_repr") and m:
        site += ":" + m.group(1)
    elif name == "SerializationSupportClassMissing":
        site += ":" + str(getattr(e, "class_name", ""))
    return f"{name}:{site}"


def fix_whole_vars(doc):
    """the document with every bare reference to a size-1 variable in a
    number position replaced by an index expression"""
    sizes = {n: len(v.get("value", [])) for n, v in doc.get("variables", {}).items()}

    def walk(x, key):
        if isinstance(x, dict):
            if set(x) == {"variable"} and key not in ("lhs", "rhs", "values", "times", "samples", "target") and sizes.get(x["variable"]) == 1:
                return {"expression": "index", "lhs": x, "rhs": 0}
            return {k: walk(v, k) for k, v in x.items()}
        if isinstance(x, list):
            return [walk(v, key) for v in x]
        return x

    d = dict(doc)
    d["operations"] = walk(doc.get("operations", []), None)
    return d


def first_unsupported(case) -> str:
    s = json.dumps(case["ops"])
    for k in ("round", "tanh"):
        if '"%s"' % k in s:
            return k
    if case["register"]["kind"] == "3d" and '"config_detmap"' in s:
        return "detuning-map-3d"
    if '"phi_kw": true' in s:
        return "phase-shift-phi-keyword"
    return "other"


class C04(PropCheck):
    id = "C04"
    props_file = "Props/C04.v"
    quick_cases = 200
    thorough_cases = 2000
    shard = 20
    assumptions = [
        "devices, registers, layouts and detuning maps are opaque to the model (their own codecs are C17's subject); the oracle compares them on the real objects",
        "text-level JSON (float printing/parsing by Python's json module) is trusted; documents are compared as parsed values",
        "behavioural identity of the reconstructed sequence is an oracle check on the implementation (timelines, pulses, phase references), not a theorem: the theorems are about the codec (document <-> calls)",
    ]
    trusted_base_extra = ["jsonschema (reference verdicts for the Coq schema validator)"]

    def gen_case(self, rng, tier):
        case = c04_gen.gen_case(rng, tier)
        case["pseed"] = rng.randrange(1 << 30)
        return case

    # ------------------------------------------------------------------ implementation + oracle
    def run_impl(self, case):
        with warnings.catch_warnings():
            warnings.simplefilter("ignore")
            return self._run(case)

    def _run(self, case):
        from pulser import Sequence

        viols = []

        def bad(sig, what, detail=None):
            viols.append(Violation(sig, what, case, detail))

        seq, env, outcomes = impl.build_sequence(case)
        ser = case.get("ser") or {}
        seq_name = ser.get("seq_name", "pulser-exported")
        kw = {}
        defaults = None
        qubits_d = None
        if ser.get("defaults"):
            defaults = dict((case.get("assignments") or [{}])[0])
            defaults = {n: v for n, v in defaults.items() if n in seq.declared_variables}
            kw.update(defaults)
            if case.get("qubits") is not None:
                qubits_d = dict(case["qubits"])
                kw["qubits"] = qubits_d
        run = dict(outcomes=outcomes, parametrized=seq.is_parametrized(), mappable=seq.is_register_mappable(),
                   n_calls=len(seq._calls) + len(seq._to_build_calls) - 1)
        # the original call log, before anything else touches the sequence
        run["seqin"] = impl.seqin_term(seq, seq_name, defaults, qubits_d)
        # phase_shift(phi=...) by keyword: the code at hand raises IndexError, a
        # repaired serializer would not; the model takes no side (finding 3)
        run["phi_kw"] = any(c.name.startswith("phase_shift") and not c.args
                            for c in list(seq._calls) + list(seq._to_build_calls))

        # ---- abstract representation
        js = None
        try:
            js = seq.to_abstract_repr(seq_name=seq_name, skip_validation=True, **kw)
        except Exception as e:  # noqa: BLE001
            if defaults is not None and type(e).__name__ == "ValueError" and "defaults" in str(e):
                # the chosen defaults do not build: not a serialisation matter
                run["ser_error"] = "defaults"
                try:
                    js = seq.to_abstract_repr(seq_name=seq_name, skip_validation=True)
                    run["seqin"] = impl.seqin_term(seq, seq_name, None, None)
                    kw = {}
                    defaults = qubits_d = None
                except Exception as e2:  # noqa: BLE001
                    e = e2
            if js is None:
                run["ser_error"] = type(e).__name__
                bad(f"abstract:serialize-raises:{exc_site(e)}",
                    f"to_abstract_repr raised {type(e).__name__}: {str(e)[:200]}")
        run["doc"] = None
        if js is not None:
            doc = json.loads(js)
            run["doc"] = doc
            # the defaults given to to_abstract_repr are recorded in the document
            if defaults is not None:
                import numpy as np

                for vn, vv in defaults.items():
                    got = doc["variables"].get(vn, {}).get("value")
                    want = np.atleast_1d(np.asarray(vv, dtype=float)).tolist()
                    if got is None or [float(x) for x in got] != want:
                        bad("abstract:defaults-not-recorded:variable", f"default value of {vn} not recorded: {got} != {want}")
            if qubits_d is not None:
                for q in doc["register"]:
                    if q.get("qid") in qubits_d and q.get("default_trap") != qubits_d[q["qid"]]:
                        bad("abstract:defaults-not-recorded:default_trap",
                            f"qubit {q.get('qid')!r}: default_trap {q.get('default_trap')} != {qubits_d[q['qid']]}")
            if not schema_ok(doc):
                why = "whole-variable-as-number" if schema_ok(fix_whole_vars(doc)) else "other"
                bad("abstract:schema-invalid:" + why, "the serialised sequence is not valid under the sequence schema")
            seq2 = None
            try:
                with impl.recording():
                    seq2 = Sequence.from_abstract_repr(js)
                run["rec"] = list(seq2._rec)
            except Exception as e:  # noqa: BLE001
                run["deser_error"] = type(e).__name__
                if type(e).__name__ != "ValidationError" or schema_ok(doc):
                    bad(f"abstract:deserialize-raises:{exc_site(e)}", f"from_abstract_repr raised: {str(e)[:200]}")
            if seq2 is not None:
                diffs = impl.compare_sequences(seq, seq2, case)
                for tag, detail in diffs:
                    bad("abstract:roundtrip:" + tag, "reconstructed sequence differs from the original: " + tag, detail)
                try:
                    if diffs:
                        raise StopIteration
                    js2 = seq2.to_abstract_repr(seq_name=seq_name, skip_validation=True, **kw)
                    if canon(json.loads(js2)) != canon(doc):
                        bad("abstract:not-idempotent", "serialising the reconstructed sequence gives a different document")
                except StopIteration:
                    pass
                except Exception as e:  # noqa: BLE001
                    bad(f"abstract:reserialize-raises:{exc_site(e)}", str(e)[:200])
        # ---- legacy encoder / decoder
        try:
            ljs = seq._serialize()
        except Exception as e:  # noqa: BLE001
            ljs = None
            bad(f"legacy:serialize-raises:{exc_site(e)}", f"_serialize raised: {str(e)[:200]}")
        if ljs is not None:
            try:
                seq3 = Sequence._deserialize(ljs)
            except Exception as e:  # noqa: BLE001
                seq3 = None
                bad(f"legacy:deserialize-raises:{exc_site(e)}", f"_deserialize raised: {str(e)[:200]}")
            if seq3 is not None:
                for tag, detail in impl.compare_sequences(seq, seq3, case):
                    bad("legacy:roundtrip:" + tag, "legacy-reconstructed sequence differs from the original: " + tag, detail)
                try:
                    if canon_sets(json.loads(seq3._serialize())) != canon_sets(json.loads(ljs)):
                        bad("legacy:not-idempotent", "legacy serialisation of the reconstruction differs")
                except Exception as e:  # noqa: BLE001
                    bad(f"legacy:reserialize-raises:{exc_site(e)}", str(e)[:200])
        # ---- schema validator tie: perturbed documents with jsonschema's verdict
        run["perturbed"] = []
        if run["doc"] is not None:
            prng = random.Random(case.get("pseed", 0))
            for d in perturbations(run["doc"], prng):
                ok = schema_ok(d)
                run["perturbed"].append((d, ok))
                if impl_schema_ok(d) != ok:
                    bad("abstract:validation-disagrees:" + ("accepts-invalid" if not ok else "rejects-valid"),
                        "validate_abstract_repr disagrees with the published schema on a perturbed document", json.dumps(d)[:2000])
            if impl_schema_ok(run["doc"]) != schema_ok(run["doc"]):
                bad("abstract:validation-disagrees:document", "validate_abstract_repr disagrees with the published schema on the serialised document")
        return run, viols

    # ------------------------------------------------------------------ Coq side
    def coq_item(self, case, run):
        doc = run["doc"]
        if run.get("phi_kw"):
            return dict(skip=True)
        if doc is None:
            return dict(seqin=run["seqin"], doc=None)
        rec = run.get("rec")
        return dict(
            seqin=run["seqin"],
            doc=impl.cjson(impl.stub_json(doc)),
            rec=None if rec is None else impl.clist(impl.present_call(n, a, k) for n, a, k in rec),
            valid=schema_ok(doc),
            perturbed=[(impl.cjson(impl.stub_json(d)), ok) for d, ok in run["perturbed"]],
        )

    def cases_file(self, items):
        t = [
            "From Coq Require Import ZArith List Bool String.",
            "From Coq Require Import PrimFloat.",
            "From PV Require Import Model.Base Model.AbsJson Gen.AbsSig Gen.AbsSchema Model.AbsRepr.",
            "Import ListNotations.",
            "Open Scope string_scope.",
            "Definition vld (j : json) : bool := valid gen_seq_defs 40 j 40 gen_seq_root.",
            "Definition enc_ok (s : seqin) (j : json) : bool :=",
            "  match encode_seq s with Some e => json_eqb e j | None => false end.",
            "Definition dec_ok (j : json) (r : list call) : bool :=",
            "  match decode_seq j with Some d => calls_eqb (d_calls d) r | None => false end.",
            "Definition norm_ok (s : seqin) (r : list call) : bool :=",
            "  match norm_seq s with Some n => calls_eqb n r | None => false end.",
            "Definition enc_none (s : seqin) : bool := match encode_seq s with Some _ => false | None => true end.",
        ]
        pairs = []
        for i, it in enumerate(items):
            if it.get("skip"):
                pairs.append("(SL [], SL [])")
                continue
            t.append(f"Definition s{i} : seqin := {it['seqin']}.")
            if it["doc"] is None:
                pairs.append(f"(SL [SB (enc_none s{i})], SL [SB true])")
                continue
            t.append(f"Definition j{i} : json := {it['doc']}.")
            got = [f"SB (enc_ok s{i} j{i})", f"SB (vld j{i})"]
            exp = ["SB true", "SB %s" % ("true" if it["valid"] else "false")]
            if it["rec"] is not None:
                t.append(f"Definition r{i} : list call := {it['rec']}.")
                got += [f"SB (dec_ok j{i} r{i})", f"SB (norm_ok s{i} r{i})"]
                exp += ["SB true", "SB true"]
            for k, (pj, ok) in enumerate(it["perturbed"]):
                t.append(f"Definition p{i}_{k} : json := {pj}.")
                got.append(f"SB (vld p{i}_{k})")
                exp.append("SB %s" % ("true" if ok else "false"))
            pairs.append("(SL [%s], SL [%s])" % ("; ".join(got), "; ".join(exp)))
        t.append("Definition outs : list (sv * sv) := [\n  " + ";\n  ".join(pairs) + "].")
        t.append("Definition bad : list Z := mismatches outs.")
        t.append("Eval vm_compute in bad.")
        return "\n".join(t) + "\n"

    # ------------------------------------------------------------------ evidence
    def nontrivial_key(self, case, run):
        if run["n_calls"] < 2 or run["doc"] is None:
            return None
        return json.dumps(case, sort_keys=True, default=str)

    def sample_of(self, case, run):
        return dict(device=case["device"].get("name", "virtual"), register=case["register"]["kind"],
                    ops=case["ops"][:12], outcomes=run["outcomes"][:12], parametrized=run["parametrized"])

    def stats(self, case, run, acc):
        def inc(k, sub):
            d = acc.setdefault(k, {})
            d[sub] = d.get(sub, 0) + 1

        inc("device", case["device"].get("name", "virtual"))
        inc("register", case["register"]["kind"] + ("+layout" if case["register"].get("layout") and case["register"]["kind"] != "mappable" else ""))
        inc("sequence", "parametrized" if run["parametrized"] else ("mappable" if run["mappable"] else "built"))
        inc("serialised", "no:" + run.get("ser_error", "?") if run["doc"] is None else "yes")
        for op, oc in zip(case["ops"], run["outcomes"]):
            inc("ops_by_kind", op["op"])
            inc("outcomes", "ok" if oc == "ok" else oc)
        s = json.dumps(case["ops"])
        for w in ("const", "ramp", "blackman", "blackman_max", "kaiser", "kaiser_max", "interp", "custom", "composite",
                  "const_amp", "const_det", "const_pulse", "arb_phase"):
            if '"k": "%s"' % w in s:
                inc("waveforms_pulses", w)
        for w in ("var", "item", "un", "bin", "slice"):
            if '"%s"' % w in s:
                inc("expressions", w)
        if run["doc"] is not None:
            for o in run["doc"]["operations"]:
                inc("document_ops", o["op"])
            for extra in ("layout", "magnetic_field", "slm_mask_targets"):
                if extra in run["doc"]:
                    inc("document_extras", extra)
            if run["doc"]["measurement"] is not None:
                inc("document_extras", "measurement")
        acc["perturbed_docs"] = acc.get("perturbed_docs", 0) + len(run.get("perturbed", []))

    def replay(self, payload: dict) -> int:
        # corpus files are bare cases; replay files wrap the case
        if "case" not in payload and "ops" in payload:
            payload = dict(case=payload)
        return super().replay(payload)

    def focused_search(self, rng, broken, budget):
        return [self.gen_case(rng, "quick") for _ in range(budget)]


CHECK = C04()
