"""C16 - waveforms and pulses honour their defining contracts."""
from __future__ import annotations

import json
import math
import random

import numpy as np

from harness import c16_impl as I
from harness.common import sv
from harness.framework import PropCheck, Violation

DURS_SMALL = [1, 2, 3]
DURS_EDGE = [4, 5, 7, 8, 9, 15, 16, 17, 31, 64, 100, 127, 128, 129, 130, 200, 257, 300]
GRID = [0.0, 0.5, 1.0, -1.0, 2.0, -2.5, 0.25, 3.0, -0.125, 10.0, -7.0, 1e-3, -1e-3, 12.566370614359172]


def rval(rng: random.Random, allow_zero=True) -> float:
    c = rng.random()
    if c < 0.35:
        v = rng.choice(GRID)
    elif c < 0.8:
        v = rng.uniform(-20, 20)
    elif c < 0.9:
        v = rng.uniform(-1, 1) * 10 ** rng.randint(-6, 4)
    else:
        v = float(rng.randint(-50, 50))
    if not allow_zero and v == 0.0:
        v = 1.5
    return float(v)


def rpos(rng: random.Random) -> float:
    c = rng.random()
    if c < 0.3:
        return rng.choice([0.5, 1.0, 2.0, 3.141592653589793, 6.283185307179586, 10.0, 0.1])
    return rng.uniform(0.05, 25.0)


def rdur(rng: random.Random, dmax=300) -> int:
    c = rng.random()
    if c < 0.35:
        return rng.choice(DURS_SMALL)
    if c < 0.55:
        return min(dmax, rng.choice(DURS_EDGE))
    return rng.randint(1, min(dmax, 40))


def rawdur(rng: random.Random, d: int, p=0.3):
    """the same duration in the int-castable forms a user may pass: int,
    integral float, non-integer float (rounded down with a warning), numpy
    int / float scalars"""
    if rng.random() >= p:
        return d
    c = rng.randint(0, 5)
    if c == 0:
        return float(d)
    if c == 1:
        return d + rng.choice([0.7, 0.5, 0.25, 0.999, 0.0001]) if d >= 0 else d - 0.5
    if c == 2:
        return ["i64", d]
    if c == 3:
        return ["f64", d + rng.choice([0.0, 0.3, 0.9])] if d >= 0 else ["f64", float(d)]
    if c == 4:
        return d + rng.random() * 0.98 + 0.01 if d >= 0 else d - rng.random() * 0.9
    return ["f64", float(d)]


def gen_interp(rng: random.Random, d=None, malformed=False):
    d_given = d
    n = rng.choice([2, 2, 3, 3, 4, 5, 6])
    if d is None:
        d = rng.choice([1, 2, 3, 4, 5, 8, 10, 16, 25, 50, 100, 129])
    vals = [rval(rng) for _ in range(n)]
    if rng.random() < 0.5:
        times = None
    else:
        inner = sorted(rng.sample([i / 16 for i in range(1, 16)] + [0.3, 0.7, 0.05, 0.95, 1 / 3], n - 2)) if n > 2 else []
        lo = 0.0 if rng.random() < 0.8 else 0.03125
        hi = 1.0 if rng.random() < 0.8 else 0.96875
        times = [lo] + inner + [hi]
    if malformed:
        c = rng.randint(0, 5)
        if c == 0:
            times = [-0.25] + [i / n for i in range(1, n)]
        elif c == 1:
            times = [i / n for i in range(n - 1)] + [1.5]
        elif c == 2:
            times = [0.0, 0.5, 0.5, 1.0][:n] if n >= 3 else [0.5, 0.5]
            times = times + [0.75] * (n - len(times))
        elif c == 3:
            times = [i / n for i in range(n + 1)]
        elif c == 4:
            times = [0.0, 1.0, 0.5] + [0.75] * (n - 3) if n >= 3 else [1.0, 0.0]
            if len(set(times)) != len(times):
                times = [0.0, 1.0, 0.5, 0.75, 0.25, 0.125][:n]
        else:
            vals = vals[:1]
            times = None
    if not malformed and (d_given is None or d >= 40) and rng.random() < 0.4:
        # non-default interpolators / interpolator kwargs; kept away from
        # colliding data points (their handling is interpolator specific)
        d = d if d_given is not None else rng.choice([40, 57, 58, 100, 129, 200])
        if times is not None:
            inner = sorted(rng.sample([i / 8 for i in range(1, 8)], n - 2)) if n > 2 else []
            times = [0.0] + inner + [1.0]
        cfgs = [
            {"interpolator": "interp1d"},
            {"interpolator": "interp1d", "kind": "linear"},
            {"interpolator": "interp1d", "kind": "previous"},
            {"interpolator": "interp1d", "kind": "next"},
            {"interpolator": "interp1d", "kind": "nearest"},
            {"interpolator": "interp1d", "kind": "linear", "fill_value": "extrapolate"},
            {"interpolator": "interp1d", "kind": "slinear", "bounds_error": False},
            {"interpolator": "PchipInterpolator", "extrapolate": True},
            {"interpolator": "PchipInterpolator", "extrapolate": False},
        ]
        if n >= 3:
            cfgs += [{"interpolator": "interp1d", "kind": "quadratic"}] * 3
        if n >= 4:
            cfgs += [{"interpolator": "interp1d", "kind": "cubic"}] * 3
        return ["interp", rawdur(rng, d, 0.3), vals, times, rng.choice(cfgs)]
    return ["interp", rawdur(rng, d, 0.4), vals, times]


def gen_wf(rng: random.Random, depth=0, d=None, classes=None, malformed=False):
    classes = classes or ["const", "ramp", "custom", "comp", "blackman", "kaiser", "interp"]
    weights = {"const": 3, "ramp": 4, "custom": 3, "comp": 2 if depth < 2 else 0, "blackman": 3, "kaiser": 3, "interp": 3}
    k = rng.choices(classes, [weights[c] for c in classes])[0]
    dd = d if d is not None else rdur(rng)
    if malformed and k not in ("comp", "interp", "kaiser", "custom"):
        dd = rng.choice([0, -1, -5])
    if k == "const":
        return ["const", rawdur(rng, dd), rval(rng)]
    if k == "ramp":
        a = rval(rng)
        b = a if rng.random() < 0.1 else rval(rng)
        return ["ramp", rawdur(rng, dd), a, b]
    if k == "custom":
        if malformed:
            return ["custom", []]
        return ["custom", [rval(rng) for _ in range(min(dd, 60))]]
    if k == "comp":
        if malformed:
            c = rng.randint(0, 1)
            if c == 0:
                return ["comp", [gen_wf(rng, depth + 1, classes=["const", "ramp", "custom"])]]
            return ["comp", [gen_wf(rng, depth + 1, classes=["const", "ramp"]), gen_wf(rng, depth + 1, classes=["const", "ramp"], malformed=True)]]
        n = rng.choice([2, 2, 3])
        if d is not None:
            # split d into n positive parts when possible
            if d < n:
                return ["custom", [rval(rng) for _ in range(d)]]
            cuts = sorted(rng.sample(range(1, d), n - 1))
            parts = [b - a for a, b in zip([0] + cuts, cuts + [d])]
        else:
            parts = [min(rdur(rng), 60) for _ in range(n)]
        sub = [c for c in classes if c != "interp"] or classes
        return ["comp", [gen_wf(rng, depth + 1, d=p, classes=sub) for p in parts]]
    if k == "blackman":
        return ["blackman", rawdur(rng, dd), rval(rng, allow_zero=False)]
    if k == "kaiser":
        beta = rng.choice([14.0, 14.0, 0.0, 1.0, 5.5, 8.6, 20.0])
        if malformed:
            return ["kaiser", dd, rval(rng, allow_zero=False), -1.0] if rng.random() < 0.6 else ["kaiser", 0, 1.0, 14.0]
        return ["kaiser", rawdur(rng, dd), rval(rng, allow_zero=False), beta]
    return gen_interp(rng, d=d, malformed=malformed)


def perturb(rng: random.Random, W, eps):
    def p(x):
        return x * (1 + eps) + (eps * 1e-3 if x == 0 else 0.0)

    k = W[0]
    if k == "const":
        return ["const", W[1], p(W[2])]
    if k == "ramp":
        return ["ramp", W[1], p(W[2]), p(W[3])]
    if k == "custom":
        return ["custom", [p(x) for x in W[1]]]
    if k == "comp":
        return ["comp", [perturb(rng, x, eps) for x in W[1]]]
    if k == "blackman":
        return ["blackman", W[1], p(W[2])]
    if k == "kaiser":
        return ["kaiser", W[1], p(W[2]), W[3]]
    return ["interp", W[1], [p(x) for x in W[2]], W[3]] + list(W[4:])


def perturb_one(rng: random.Random, W, eps):
    """change a single defining number by the relative amount eps"""
    def p(x):
        return x * (1 + eps) + (eps * 1e-3 if x == 0 else 0.0)

    k = W[0]
    W2 = list(W)
    if k == "const":
        W2[2] = p(W[2])
    elif k == "ramp":
        i = rng.choice([2, 3])
        W2[i] = p(W[i])
    elif k in ("custom", "interp"):
        idx = 1 if k == "custom" else 2
        l = list(W[idx])
        if l:
            j = rng.randrange(len(l))
            l[j] = p(l[j])
        W2[idx] = l
    elif k == "comp":
        l = list(W[1])
        if l:
            j = rng.randrange(len(l))
            l[j] = perturb_one(rng, l[j], eps)
        W2[1] = l
    else:
        W2[2] = p(W[2])
    return W2


def gen_cancelling(rng: random.Random):
    """waveforms whose samples change sign so that the integral (nearly)
    cancels: near-equal partners then have close samples but integrals that
    are not 'close' to each other"""
    c = rng.randint(0, 3)
    x = rng.choice([1.0, 40.0, 500.0, 1000.0, rng.uniform(0.5, 2000.0)])
    if c == 0:
        n = rng.choice([1, 2, 3, 8, 25])
        vals = []
        for _ in range(n):
            vals += [x, -x]
        rng.shuffle(vals)
        return ["custom", vals]
    if c == 1:
        return ["ramp", rng.choice([2, 3, 11, 101, 128]), -x, x]
    if c == 2:
        d = rng.choice([1, 5, 20, 64])
        return ["comp", [["const", d, x], ["const", d, -x]]]
    d = rng.choice([3, 9, 33])
    return ["comp", [["blackman", d, x * 1e-2], ["blackman", d, -x * 1e-2]]]


def wdur(W) -> int:
    k = W[0]
    if k == "custom":
        return len(W[1])
    if k == "comp":
        return sum(wdur(x) for x in W[1])
    return I.dur_int(W[1])


def gen_ops(rng: random.Random, W):
    d = max(1, wdur(W))
    ops = [["samples"], ["dur"], ["integral"]]
    idx = [0, -1, d - 1, -d, d, -d - 1] + [rng.randint(-d - 2, d + 1) for _ in range(2)]
    for i in rng.sample(idx, 4):
        ops.append(["index", i])
    bounds = [None, 0, 1, -1, d, -d, d + 2, -d - 2, d // 2, -(d // 2)]
    for _ in range(3):
        a = rng.choice(bounds + [rng.randint(-d - 3, d + 3)])
        b = rng.choice(bounds + [rng.randint(-d - 3, d + 3)])
        st = rng.choices([None, 1, 2, -1, 0], [5, 3, 1, 1, 0.5])[0]
        ops.append(["slice", a, b, st])
    ops.append(["mul", rng.choice([2.0, -3.0, 0.5, 0.0, 1e-3, -1.0, 1.0 / 3.0, rng.uniform(-5, 5)])])
    ops.append(["neg"])
    ops.append(["div", rng.choice([2.0, -4.0, 0.0, -0.0, 3.0, 0.1, rng.uniform(-5, 5)])])
    if W[0] == "interp" and len(W) > 4:
        for _ in range(2):
            ops.append(["chdur", rawdur(rng, rng.choice([40, 41, 57, 58, 100, 129, 200, 0, -2, d, d + 1, rng.randint(40, 250)]), 0.3)])
    else:
        ops.append(["chdur", rawdur(rng, rng.choice([1, 2, 3, 3, 4, 10, 0, -2, d, d + 1, rng.randint(1, 150)]), 0.4)])
    c = rng.random()
    if c < 0.25:
        other = W
    elif c < 0.75:
        eps = rng.choice([1e-12, 1e-9, 1e-7, 4e-6, 5e-6, 9e-6, 1.1e-5, 2e-5, 1e-3, -1e-6, -4e-6])
        other = perturb(rng, W, eps) if rng.random() < 0.5 else perturb_one(rng, W, eps)
    elif c < 0.9:
        other = gen_wf(rng, d=d, classes=["const", "ramp", "custom", "blackman"])
    else:
        other = gen_wf(rng, classes=["const", "ramp", "custom", "kaiser"])
    ops.append(["eq", other])
    if W[0] == "interp":
        ops.append(["datapts"])
    rng.shuffle(ops)
    return ops


def gen_amp(rng: random.Random, d):
    c = rng.random()
    if c < 0.3:
        return ["const", rawdur(rng, d), abs(rval(rng))]
    if c < 0.5:
        return ["ramp", rawdur(rng, d), abs(rval(rng)), abs(rval(rng))]
    if c < 0.65:
        return ["blackman", d, abs(rval(rng, allow_zero=False))]
    if c < 0.75:
        return ["kaiser", d, abs(rval(rng, allow_zero=False)), 14.0]
    if c < 0.85:
        return ["custom", [abs(rval(rng)) for _ in range(d)]]
    # sometimes negative somewhere
    return gen_wf(rng, d=d, classes=["const", "ramp", "custom", "blackman"])


PHASES = [0.0, -0.0, 1.0, -1.0, math.pi, -math.pi, 2 * math.pi, -2 * math.pi, 4 * math.pi, 7.0, -7.0,
          6.283185307179585, 6.283185307179587, 1e-9, -1e-9, 100.0, -100.0, 1e6, 3 * math.pi / 2]


def rphase(rng: random.Random, tiny_neg=True) -> float:
    c = rng.random()
    if c < 0.45:
        return rng.choice(PHASES)
    if c < 0.5 and tiny_neg:
        return -(10.0 ** rng.randint(-30, -17))
    if c < 0.8:
        return rng.uniform(-20, 20)
    return rng.randint(-640, 640) / 64.0


def exact_blackman_peak(n: int, area: float) -> float:
    """the value an n-ns Blackman waveform of that area scales its window by
    (its peak for odd n): area / sum(clipped window) * 1e3, as a double"""
    w = np.clip(np.blackman(n), 0, np.inf)
    if n == 2:
        return area / 0.42 * 1e3
    return float(area / np.sum(w) * 1e3)


def exact_kaiser_peak(n: int, area: float, beta: float) -> float:
    """peak of an n-ns Kaiser waveform of that area as a double:
    max(window) * (1000 * area / sum(window))"""
    w = np.kaiser(n, beta)
    return float(np.max(w) * (1000 * area / np.sum(w)))


class C16(PropCheck):
    id = "C16"
    props_file = "Props/C16.v"
    quick_cases = 1000
    thorough_cases = 12000
    shard = 60
    assumptions = [
        "np.blackman / np.kaiser values and scipy PCHIP samples enter the model as oracle inputs; "
        "their assumed properties (finite, right length, 0 <= clipped window <= 1, positive sum except np.blackman(2)) "
        "are validated on every value used and by a sweep over durations each run",
        "exact-arithmetic theorems (area, scaling, ramp values, phase reconstruction) are proved over the rationals; "
        "the float instance is tied to the code bit-for-bit by the correspondence",
    ]
    trusted_base_extra = [
        "numpy np.blackman/np.kaiser/np.sum/np.clip, scipy PchipInterpolator (oracle inputs of the model)",
    ]

    # ------------------------------------------------------------ generator
    def gen_case(self, rng: random.Random, tier: str):
        c = rng.random()
        if c < 0.52:
            mal = rng.random() < 0.12
            W = gen_wf(rng, malformed=mal) if rng.random() > 0.08 else gen_cancelling(rng)
            return dict(kind="wf", wf=W, ops=gen_ops(rng, W))
        if c < 0.66:
            d = rdur(rng, 130)
            amp = gen_amp(rng, d)
            dd = d if rng.random() < 0.9 else max(1, d + rng.choice([-1, 1]))
            det = gen_wf(rng, d=dd, classes=["const", "ramp", "custom", "comp", "blackman", "interp"])
            return dict(kind="pulse", amp=amp, det=det, phase=rphase(rng), post=rphase(rng, tiny_neg=False))
        if c < 0.8:
            d = rdur(rng, 130)
            amp = gen_amp(rng, d) if rng.random() < 0.8 else ["const", d, 1.0]
            dd = d if rng.random() < 0.93 else max(1, d + rng.choice([-1, 1]))
            ph = gen_wf(rng, d=dd, classes=["const", "ramp", "custom", "comp", "blackman", "kaiser", "interp"])
            return dict(kind="arb", amp=amp, phase_wf=ph, post=rphase(rng, tiny_neg=False))
        if c < 0.9:
            area = rpos(rng)
            s = rng.choice([1, 1, -1])
            s2 = s if rng.random() < 0.92 else -s
            h = rng.random()
            if h < 0.35:
                # max_val that an N-ns waveform reaches EXACTLY (bit for bit), or
                # misses by a hair either way: N must be returned / must not be
                n = rng.choice([1, 3, 4, 5, 6, 7, 8, 9, 10, 16, 17, 33, 50, 51, 100, 101, 128, 129, 200, 201, 257, 400, 401])
                mv = exact_blackman_peak(n, area) * rng.choice([1.0, 1.0, 1.0, 1 + 1e-9, 1 - 1e-9])
            elif h < 0.5:
                # round numbers: area = 0.42 * max_val * (N - 1) / 1000
                mv = rng.choice([1.0, 2.0, 5.0, 10.0, 4.0, 0.5, 20.0])
                n1 = rng.choice([10, 20, 50, 100, 200, 250, 400, 500, 1000])
                area = round(0.42 * mv * n1 / 1000, 6)
            else:
                # durations between ~3 and ~400 ns
                dur = rng.choice([3, 4, 5, 6, 8, 11, 20, 33, 50, 100, 101, 150, 250, 400]) * rng.uniform(0.9, 1.1)
                mv = area / (0.42 * dur) * 1e3
                if rng.random() < 0.2:
                    mv = float(round(mv, 1)) or 1.0
            return dict(kind="bmv", max_val=float(s2 * mv), area=float(s * area))
        area = rpos(rng)
        beta = rng.choice([14.0, 14.0, 14.0, 0.0, 2.0, 5.5, 8.6, 20.0])
        s = rng.choice([1, 1, -1])
        s2 = s if rng.random() < 0.92 else -s
        if rng.random() < 0.4:
            n = rng.choice([1, 2, 3, 4, 5, 7, 8, 10, 11, 12, 14, 15, 16, 17, 20, 33, 50, 51, 99, 100, 101, 128, 150, 200, 201, 300, 400])
            mv = exact_kaiser_peak(n, area, beta) * rng.choice([1.0, 1.0, 1.0, 1 + 1e-9, 1 - 1e-9])
        else:
            dur = rng.choice([1, 2, 3, 5, 8, 10, 11, 12, 14, 16, 20, 33, 50, 100, 150, 250, 400]) * rng.uniform(0.9, 1.1)
            avg = float(np.sum(np.kaiser(100, beta))) / 100
            mv = area / (avg * dur) * 1e3
        return dict(kind="kmv", max_val=float(s2 * mv), area=float(s * area), beta=beta)

    # -------------------------------------------------------- implementation
    def run_impl(self, case):
        return I.run_case(case)

    def coq_item(self, case, run):
        return (case, run["env"].coq(), sv(run["out"]))

    def cases_file(self, items) -> str:
        return I.cases_file(items)

    def nontrivial_key(self, case, run):
        if not run["built"]:
            return None
        return json.dumps(case, sort_keys=True)

    def sample_of(self, case, run):
        return dict(case=case, outcome=str(run["out"])[:400])

    def stats(self, case, run, acc: dict):
        acc.setdefault("kinds", {})
        acc["kinds"][case["kind"]] = acc["kinds"].get(case["kind"], 0) + 1
        acc.setdefault("built", 0)
        acc["built"] += 1 if run["built"] else 0
        out = run["out"]
        acc.setdefault("construction_errors", {})
        if out and out[0] != 0:
            acc["construction_errors"][str(out[0])] = acc["construction_errors"].get(str(out[0]), 0) + 1
        if case["kind"] == "wf":
            acc.setdefault("classes", {})
            acc["classes"][case["wf"][0]] = acc["classes"].get(case["wf"][0], 0) + 1
            acc.setdefault("op_errors", {})
            if out and out[0] == 0:
                for op, r in zip(case["ops"], out[1:]):
                    if r[0] != 0:
                        k = f"{op[0]}:{r[0]}"
                        acc["op_errors"][k] = acc["op_errors"].get(k, 0) + 1
                acc.setdefault("short_durations", 0)
                if I.__dict__["build"] and wdur(case["wf"]) <= 3:
                    acc["short_durations"] += 1
        acc.setdefault("oracle_windows", 0)
        acc["oracle_windows"] += len(run["env"].win)
        acc.setdefault("oracle_interp", 0)
        acc["oracle_interp"] += len(run["env"].itp)

    # ------------------------------------------------------------ extras
    def extra_checks(self, tier: str, rng) -> list[Violation]:
        """finite sweep validating the hypotheses the theorems put on the
        window oracles (and the pairwise-summation model of np.sum)"""
        v = []
        top = 1500 if tier == "quick" else 5000
        for d in range(1, top + 1):
            for name, w in (("blackman", np.blackman(d)), ("kaiser14", np.kaiser(d, 14.0)), ("kaiser5", np.kaiser(d, 5.0))):
                c = np.clip(w, 0, np.inf)
                ok = len(w) == d and bool(np.all(np.isfinite(w))) and bool(np.all(c <= 1.0 + 1e-12))
                if not (name == "blackman" and d == 2):
                    ok = ok and float(np.sum(c)) > 0
                if not ok:
                    v.append(Violation("oracle-hypothesis:window-sweep", f"np.{name}({d}) violates an assumed window property", dict(kind="sweep", d=d)))
                    return v
        return v

    def focused_search(self, rng, broken, budget):
        return [self.gen_case(rng, "thorough") for _ in range(budget)]


CHECK = C16()
