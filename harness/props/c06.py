"""C06 - sampling renders the schedule exactly.

Generator: concrete sequences built with the shared sequence generator
(pulses of every waveform class, delays, retargets, EOM blocks, DMM channels,
multi-target local channels) plus XY devices with local/global microwave
channels and SLM masks.  Runner: /repo's `sample`, `extend_duration`,
`to_nested_dict`, `get_qubit_weight_map` on the final sequence, with the
property oracle of harness/c06_impl.py.  Correspondence: Model/Sampler.v
evaluated inside Coq on the extracted schedule, compared bit for bit."""
from __future__ import annotations

import json
import random
import warnings

from harness import c06_impl, seqgen
from harness.common import coq_Z, coq_bool, coq_float, coq_list, sv
from harness.framework import PropCheck, Violation
from pulser import Pulse
from pulser.sequence._schedule import _DMMSchedule

HEADER = """From Coq Require Import ZArith List Bool.
From Coq Require Import Uint63 FloatOps SpecFloat PrimFloat.
From PV Require Import Model.Base Model.Sampler.
Import ListNotations.
Open Scope Z_scope.
"""


def gen_case(rng: random.Random, tier: str):
    xy = rng.random() < 0.25
    focus = rng.choice([None, "eom", "eom", "eom", "local", "local", "conflict", "phase"])
    dev = seqgen.gen_device(rng, xy=xy, focus=focus)
    if xy:
        # only microwave channels can be declared next to each other in XY mode
        mw = [c for c in dev["channels"] if c["kind"] == "Microwave"]
        rest = [c for c in dev["channels"] if c["kind"] != "Microwave"][: rng.choice([0, 0, 1])]
        if rng.random() < 0.7:
            mw.append(
                dict(
                    id="mwl",
                    kind="Microwave",
                    addressing="Local",
                    clock_period=rng.choice([1, 4]),
                    min_duration=rng.choice([1, 16]),
                    max_duration=10**8,
                    mod_bandwidth=rng.choice([None, 8.0]),
                    max_amp=None,
                    max_abs_detuning=None,
                    min_retarget_interval=rng.choice([0, 220]),
                    fixed_retarget_t=rng.choice([0, 40]),
                    max_targets=rng.choice([None, 1, 2]),
                )
            )
        dev["channels"] = mw + rest
        for i, c in enumerate(dev["channels"]):
            c["id"] = f"ch{i}"
        dev["reusable"] = rng.random() < 0.7
    dev["slm"] = rng.random() < (0.7 if xy else 0.35)
    if dev["slm"] and not dev["dmms"]:
        dev["dmms"] = [dict(clock_period=1, min_duration=1, max_duration=10**8, mod_bandwidth=None,
                            bottom_detuning=None, total_bottom_detuning=None)]
    reg = seqgen.gen_register(rng)
    n = len(reg["ids"])
    computed = rng.random() < 0.5
    if computed:
        # centred / computed layouts: coordinates of small magnitude that are not
        # multiples of 1e-6 um (the detuning map stores traps rounded to 6
        # decimals), some exactly 0, 1e-7 offsets
        shift = rng.choice([0.0, 5.0 * (n - 1), 10.0 * rng.randrange(n)])
        fr = [0.0, 1 / 6, -1 / 6, 1 / 7, 2 / 7, -3 / 7, 1 / 3, -1 / 3, 1e-7, 3e-7, -2e-7, 4.4e-7, 0.25, 0.4999997]
        reg["coords"] = [[10.0 * i - shift + rng.choice(fr), rng.choice(fr)] for i in range(n)]
    maps = []
    for _ in range(2):
        k = n if rng.random() < 0.6 else rng.randint(1, n)  # a prefix: the other atoms have no trap in the map
        w = [rng.choice([0.0, 0.25, 0.5, 1.0]) for _ in range(k)]
        if sum(w) == 0:
            w[0] = 1.0
        maps.append(w)
    case = dict(device=dev, register=reg, maps=maps, ops=[])
    n_ops = rng.randint(5, 22) if tier == "quick" else rng.randint(5, 36)
    with warnings.catch_warnings():
        warnings.simplefilter("ignore")
        ops = seqgen.gen_ops(rng, case, n_ops, 0.05, 0.02, focus=focus)
    ops = [o for o in ops if not o["op"].startswith("q_") and o["op"] != "estimate"]
    if computed and not xy and rng.random() < 0.6:
        # make sure a DMM with non-zero detuning acts on those atoms
        if not dev["dmms"]:
            dev["dmms"] = [dict(clock_period=1, min_duration=1, max_duration=10**8, mod_bandwidth=None,
                                bottom_detuning=None, total_bottom_detuning=None)]
        pre = [dict(op="config_detmap", map=rng.randrange(2), dmm_id="dmm_0"),
               dict(op="add_dmm", wf=rng.choice([dict(k="const", d=64, v=-1.0), dict(k="ramp", d=64, a=-0.5, b=-4.0)]),
                    channel="dmm_0", protocol=1)]
        pos = rng.choice([0, 0, 1, 2])
        ops = ops[:pos] + pre + ops[pos:]
    if xy and dev["slm"] and rng.random() < 0.5:
        pre = straddle_prelude(rng, dev, reg)
        if pre:
            case["straddle"] = True
            ops = pre + ops
    elif dev["slm"] and rng.random() < 0.85:
        k = rng.randint(1, n)
        qs = rng.sample(reg["ids"], k)
        pos = rng.choice([0, 1, 1, 2, len(ops)]) if rng.random() < 0.7 else rng.randint(0, len(ops))
        ops.insert(min(pos, len(ops)), dict(op="config_slm", qubits=qs, dmm_id="dmm_0"))
    if rng.random() < 0.3 and len(ops) > 3:
        ops = ops[: rng.randint(3, len(ops))]  # stop anywhere (e.g. inside an EOM block)
    case["ops"] = ops
    case["ext"] = rng.choice([0, 1, 1, 5, 17, 100])
    case["bad"] = rng.choice([0, 0, 1, 10, 50, 400])
    return case


def straddle_prelude(rng, dev, reg):
    """XY mode: a pulse on a second microwave channel that starts while the SLM
    mask is on (before the end of the first pulse of the first global channel)
    and ends after it - the only way a slot can straddle the mask end."""
    mw_g = [c for c in dev["channels"] if c["kind"] == "Microwave" and c["addressing"] == "Global"]
    mw_l = [c for c in dev["channels"] if c["kind"] == "Microwave" and c["addressing"] == "Local"]
    if not mw_g or not (mw_l or dev.get("reusable")):
        return None
    first = mw_g[0]
    second = rng.choice(mw_l) if (mw_l and (not dev.get("reusable") or rng.random() < 0.5)) else first
    ids = reg["ids"]
    masked = rng.sample(ids, rng.randint(1, len(ids)))
    d0 = rng.choice([48, 100, 160])
    gap = rng.choice([16, 32, 44])  # valid for clock 1/4 and min_duration 1/16, < d0
    d1 = d0 + rng.choice([16, 64, 200])
    ops = [dict(op="declare", name="a", channel_id=first["id"], initial_target=None)]
    if second["addressing"] == "Local":
        k = second.get("max_targets") or len(ids)
        tg = [rng.choice(masked)] + [q for q in rng.sample(ids, len(ids)) if q not in masked]
        ops.append(dict(op="declare", name="b", channel_id=second["id"], initial_target=tg[: max(1, min(k, len(tg)))]))
    else:
        ops.append(dict(op="declare", name="b", channel_id=second["id"], initial_target=None))
    slm = dict(op="config_slm", qubits=masked, dmm_id="dmm_0")
    body = [
        dict(op="add", pulse=dict(amp=seqgen.gen_wf(rng, d0, True), det=seqgen.gen_wf(rng, d0, False),
                                  phase=rng.choice(seqgen.PHASES), post=0.0), channel="a", protocol=0),
        dict(op="delay", duration=gap, channel="b", at_rest=False),
        dict(op="add", pulse=dict(amp=seqgen.gen_wf(rng, d1, True), det=seqgen.gen_wf(rng, d1, False),
                                  phase=rng.choice(seqgen.PHASES), post=0.0), channel="b", protocol=1),
    ]
    body.insert(rng.choice([0, 0, 1, 3]), slm)
    return ops + body


def run_case(case):
    info = dict(user_pulses=set(), dmm_weights={}, pulse_targets={})
    intended = {}  # channel name -> atoms the program last pointed the channel at
    ids = case["register"]["ids"]

    def hook(i, op, seq, ok, maps):
        for name, cs in seq._schedule.items():
            if isinstance(cs, _DMMSchedule) and name not in info["dmm_weights"]:
                # (a config_detuning_map can also trigger the pending SLM-mask DMM:
                # tell the two apart by the map object the call was given)
                if op["op"] == "config_detmap" and 0 <= op["map"] < len(maps) and cs.detuning_map is maps[op["map"]]:
                    m = case["maps"][op["map"]]
                    info["dmm_weights"][name] = {q: (float(m[j]) if j < len(m) else 0.0) for j, q in enumerate(ids)}
                else:  # the DMM that implements the SLM mask
                    tg = set(seq._slm_mask_targets)
                    if op["op"] == "config_slm":
                        tg = set(op["qubits"])
                    info["dmm_weights"][name] = {q: (1.0 if q in tg else 0.0) for q in ids}
        # the atoms each pulse is meant for, from the calls themselves (not from the
        # schedule): declaration / last successful retarget of the channel
        for name, cs in seq._schedule.items():
            if name not in intended and (isinstance(cs, _DMMSchedule) or cs.channel_obj.addressing == "Global"):
                intended[name] = frozenset(ids)
        if ok and op["op"] == "declare" and op.get("initial_target") and op["name"] in seq._schedule \
                and seq._schedule[op["name"]].channel_obj.addressing == "Local":
            intended[op["name"]] = frozenset(op["initial_target"])
        if ok and op["op"] == "target":
            intended[op["channel"]] = frozenset(op["qubits"])
        if ok and op["op"] == "target_index":
            intended[op["channel"]] = frozenset(ids[j] for j in op["qubits"])
        if ok and op["op"] in ("add", "add_dmm", "add_eom"):
            cs = seq._schedule.get(op["channel"])
            if cs is not None and cs.slots and isinstance(cs.slots[-1].type, Pulse) and op["channel"] in intended:
                info["pulse_targets"][(op["channel"], cs.slots[-1].ti)] = intended[op["channel"]]
        if ok and op["op"] in ("add", "add_dmm"):
            cs = seq._schedule.get(op["channel"])
            if cs is not None and cs.slots and isinstance(cs.slots[-1].type, Pulse):
                info["user_pulses"].add((op["channel"], cs.slots[-1].ti))

    cd, seq, outcomes = c06_impl.run_ops(case, hook)
    run = dict(outcomes=outcomes, trivial=True, n_pulses=0)
    if not seq._schedule:
        return run, []
    x = c06_impl.extract(cd, seq)
    exp, raw, crashes = c06_impl.impl_outputs(cd, seq, int(case.get("ext", 1)), int(case.get("bad", 0)))
    with warnings.catch_warnings():
        warnings.simplefilter("ignore")
        viols = c06_impl.oracle(case, cd, seq, raw, crashes, info)
    if raw is None:
        return run, viols
    # run-time validation of the oracle-input hypotheses of the theorems
    for c in x["chans"]:
        if c["pjt"] < 0:
            viols.append(Violation("hypothesis:negative-phase-jump-time", f"channel {c['name']}", case))
        for s in c["slots"]:
            if s["k"] == "pulse" and (s["fs"] < 0 or s["fe"] < 0):
                viols.append(Violation("hypothesis:negative-fall-time", f"channel {c['name']}", case))
    npulses = sum(1 for c in x["chans"] for s in c["slots"] if s["k"] == "pulse")
    run.update(
        trivial=False,
        x=x,
        exp=exp,
        ext_ok=raw["ext_ok"],
        ext_bad=raw["ext_bad"],
        n_pulses=npulses,
        maxdur=raw["maxdur"],
        feat=dict(
            xy=any(c["basis"] == 2 for c in x["chans"]),
            mask=bool(x["mask"]),
            dmm=any(c["dmm"] for c in x["chans"]),
            eom=any(c["eom"] for c in x["chans"]),
            eom_open=any(c["eom"] and c["eom"][-1]["tf"] is None for c in x["chans"]),
            local_multi=any((not c["glob"]) and any(len(s["tg"]) > 1 for s in c["slots"]) for c in x["chans"]),
            dd_user=any(v.signature.startswith("phase:zero") for v in viols),
            crash=bool(crashes),
            straddle=straddles_mask(x, raw),
            nchan=len(x["chans"]),
        ),
    )
    return run, viols


# ------------------------------------------------------------------ Coq terms
def rle_term(samples) -> str:
    pairs = c06_impl.rle(samples)
    return "(unrle " + coq_list("(%s, %s)" % (coq_float(v), coq_Z(n)) for v, n in pairs) + ")"


def zs(l) -> str:
    return coq_list(coq_Z(z) for z in l)


def slot_term(s) -> str:
    if s["k"] == "pulse":
        k = "(FK (FP %s %s %s %s %s %s))" % (
            rle_term(s["amp"]),
            rle_term(s["det"]),
            coq_float(s["phase"]),
            coq_bool(s["dd"]),
            coq_Z(s["fs"]),
            coq_Z(s["fe"]),
        )
    elif s["k"] == "target":
        k = "FT"
    else:
        k = "FD"
    return "(FS %s %s %s %s)" % (k, coq_Z(s["ti"]), coq_Z(s["tf"]), zs(s["tg"]))


def chan_term(c, x) -> str:
    eom = coq_list(
        "(FE %s %s %s)" % (coq_Z(b["ti"]), "None" if b["tf"] is None else "(Some %s)" % coq_Z(b["tf"]), coq_float(b["off"]))
        for b in c["eom"]
    )
    if c["dmm"]:
        traps = coq_list("(%s, %s)" % (coq_list(coq_float(v) for v in co), coq_float(w)) for co, w in c["traps"])
        qpos = coq_list("(%s, %s)" % (coq_Z(q), coq_list(coq_float(v) for v in p)) for q, p in zip(x["qids"], x["qpos"]))
        w = "(f_weight_map %s %s)" % (traps, qpos)
    else:
        w = "[]"
    return "(FC %s %s %s %s %s %s %s)" % (
        coq_list(slot_term(s) for s in c["slots"]),
        eom,
        coq_Z(c["pjt"]),
        coq_bool(c["glob"]),
        coq_Z(c["basis"]),
        coq_bool(c["dmm"]),
        w,
    )


def case_terms(case, run):
    if run.get("trivial"):
        return None
    x = run["x"]
    chans = coq_list(chan_term(c, x) for c in x["chans"])
    return (chans, zs(x["mask"]), zs(x["qids"]), coq_Z(run["ext_ok"]), coq_Z(run["ext_bad"]), sv(run["exp"]))


def cases_file(items) -> str:
    out = [HEADER]
    pairs = []
    for i, it in enumerate(items):
        if it is None:
            pairs.append("(SB true, SB true)")
            continue
        chans, mask, qids, eo, eb, exp = it
        out.append(f"Definition chans_{i} : list fchan := {chans}.")
        out.append(f"Definition exp_{i} : sv := {exp}.")
        pairs.append(f"(f_render chans_{i} {mask} {qids} {eo} {eb}, exp_{i})")
    out.append("Definition all_pairs : list (sv * sv) := %s." % coq_list(pairs))
    out.append("Definition bad : list Z := Eval vm_compute in mismatches all_pairs.")
    out.append("Eval vm_compute in bad.")
    out.append(
        "Eval vm_compute in map (fun i => match nth_error all_pairs (Z.to_nat i) with"
        " Some (a, b) => sv_diff_path a b | None => [] end) bad."
    )
    return "\n".join(out) + "\n"


def straddles_mask(x, raw):
    """a pulse of an XY channel that names a masked atom starts before the mask
    end and ends after it"""
    mend = int(raw["s"]._slm_mask.end)
    if not x["mask"] or not mend or not raw["s"]._slm_mask.targets:
        return False
    return any(
        s["k"] == "pulse" and s["ti"] < mend < s["tf"] and set(s["tg"]) & set(x["mask"])
        for c in x["chans"] if c["basis"] == 2 for s in c["slots"]
    )


class C06(PropCheck):
    id = "C06"
    props_file = "Props/C06.v"
    shard = 12
    quick_cases = 300
    thorough_cases = 1500
    assumptions = [
        "waveform samples, fall times (FFT modulation) and the is-detuned-delay flag of every pulse enter the model as oracle inputs read from the implementation's objects",
        "fall times and phase-jump times are non-negative (validated on every value used)",
        "schedules are well-formed timelines (C02); the model's wf_chan is evaluated on every schedule met",
    ]
    trusted_base_extra = [
        "numpy slice arithmetic as modelled by sadd/accr/set_from in Model/Sampler.v",
    ]

    def gen_case(self, rng, tier):
        return gen_case(rng, tier)

    def run_impl(self, case):
        return run_case(case)

    def coq_item(self, case, run):
        return case_terms(case, run)

    def cases_file(self, items):
        return cases_file(items)

    def replay(self, payload):
        # accepts a driver replay file ({"case": ...}) or a corpus file (the case itself)
        if "case" not in payload and "ops" in payload:
            payload = dict(case=payload)
        return super().replay(payload)

    def nontrivial_key(self, case, run):
        if run.get("trivial") or run.get("n_pulses", 0) < 1:
            return None
        return json.dumps(case, sort_keys=True, default=str)

    def sample_of(self, case, run):
        return dict(device=case["device"], register=case["register"], maps=case["maps"], ops=case["ops"],
                    outcomes=run.get("outcomes"), features=run.get("feat"))

    def stats(self, case, run, acc):
        acc["cases"] = acc.get("cases", 0) + 1
        if run.get("trivial"):
            acc["no_channel"] = acc.get("no_channel", 0) + 1
            return
        acc["pulses"] = acc.get("pulses", 0) + run["n_pulses"]
        acc["max_duration"] = max(acc.get("max_duration", 0), run["maxdur"])
        acc["calls"] = acc.get("calls", 0) + len(case["ops"])
        acc["calls_ok"] = acc.get("calls_ok", 0) + sum(run["outcomes"])
        f = acc.setdefault("features", {})
        for k, v in run["feat"].items():
            if k == "nchan":
                h = acc.setdefault("channels_per_case", {})
                h[str(v)] = h.get(str(v), 0) + 1
            elif v:
                f[k] = f.get(k, 0) + 1


CHECK = C06()
