"""C11 - emulation keeps states physical and follows the measurement
conventions; the legacy emulator and the V2 backend agree."""
from __future__ import annotations

import json

from harness import c11_coq, c11_gen, c11_run
from harness.framework import PropCheck


class C11(PropCheck):
    id = "C11"
    props_file = "Props/C11.v"
    quick_cases = 260
    thorough_cases = 3000
    shard = 40
    assumptions = [
        "states returned by QuTiP's sesolve/mesolve enter the model as oracle inputs (their probabilities as exact dyadic rationals); normalisation, positivity, the Rabi oscillation and zero-drive invariance of the INTEGRATED state are checked by running the emulator, not proved",
        "uniform draws of numpy's global RandomState are reproduced by re-seeding (same calls, same order) and enter the sampling model as inputs",
        "cumulative sums of non-negative probabilities are sorted (validated inside Coq on every case)",
    ]
    trusted_base_extra = [
        "QuTiP 5.3 sesolve/mesolve/QobjEvo, numpy (abs, sum, cumsum, searchsorted, linspace, union1d, RandomState)",
    ]

    def gen_case(self, rng, tier):
        return c11_gen.gen_case(rng, tier)

    def run_impl(self, case):
        return c11_run.run_case(case)

    def coq_item(self, case, run):
        return c11_coq.case_term(run["checks"])

    def cases_file(self, items):
        return c11_coq.cases_file(items)

    def nontrivial_key(self, case, run):
        if not run["info"].get("nontrivial") or not run["checks"]:
            return None
        return json.dumps(case, sort_keys=True, default=str)

    def sample_of(self, case, run):
        return dict(case={k: v for k, v in case.items() if k != "amps"}, info=run["info"],
                    checks=[c["c"] for c in run["checks"]])

    def stats(self, case, run, acc):
        info = run["info"]
        k = info.get("kind", "?")
        acc.setdefault("kinds", {}).setdefault(k, 0)
        acc["kinds"][k] += 1
        if k == "emu":
            f = acc.setdefault("families", {})
            f[info.get("family")] = f.get(info.get("family"), 0) + 1
            if "dim" in info:
                d = acc.setdefault("emu_dims", {})
                d[str(info["dim"])] = d.get(str(info["dim"]), 0) + 1
            if info.get("v2_error"):
                e = acc.setdefault("v2_errors", {})
                e[info["v2_error"]] = e.get(info["v2_error"], 0) + 1
            if info.get("v2_ok") and info.get("v2_stochastic"):
                b = acc.setdefault("v2_stochastic_branch", {"runs": 0, "with_dissipation": 0, "with_reps_gt_1": 0,
                                                            "dissipation_and_reps_gt_1": 0, "reference_errors": 0})
                b["runs"] += 1
                gt1 = any(r > 1 for r in info.get("stoch_reps", []))
                b["with_dissipation"] += bool(info.get("v2_dissipative"))
                b["with_reps_gt_1"] += gt1
                b["dissipation_and_reps_gt_1"] += bool(info.get("v2_dissipative")) and gt1
                b["reference_errors"] += "stoch_ref_error" in info
            if "v2_state_diff" in info:
                acc["max_v2_state_diff_ok"] = max(acc.get("max_v2_state_diff_ok", 0.0),
                                                  info["v2_state_diff"] if info["v2_state_diff"] <= c11_run.TOL_STATE else 0.0)
        if k == "hist":
            h = acc.setdefault("histories", {"final_without_prep": 0, "compared_with_fresh": 0, "patterns": {}})
            h["final_without_prep"] += info.get("final_prep") is False
            h["compared_with_fresh"] += "hist_vs_fresh" in info
            pat = ">".join(info.get("steps", []))
            h["patterns"][pat] = h["patterns"].get(pat, 0) + 1
        c = acc.setdefault("checks", {})
        for ch in run["checks"]:
            c[ch["c"]] = c.get(ch["c"], 0) + 1

    def replay(self, payload):
        # corpus files hold the bare case, replay files wrap it
        if "case" not in payload and "kind" in payload:
            payload = {"case": payload}
        return super().replay(payload)

    def focused_search(self, rng, broken, budget):
        for _ in range(budget):
            yield c11_gen.gen_case(rng, "thorough")


CHECK = C11()
