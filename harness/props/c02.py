"""C02 - channel timelines are gap-free, non-overlapping and clock-aligned."""
from __future__ import annotations

from harness.framework import Violation
from harness.seqprop import indep_fall, SeqProp, slot_kind, slots_of
from pulser import Pulse


class C02(SeqProp):
    id = "C02"
    props_file = "Props/C02.v"
    focus = "mix"
    quick_cases = 800
    thorough_cases = 6000
    assumptions = [
        "fall times of pulses (FFT modulation) enter the model as oracle inputs",
        "channel parameters satisfy the constraints Channel.__post_init__ enforces (clock_period > 0, min_duration > 0)",
    ]

    def oracle_init(self, case):
        return dict(prev={})

    def oracle_step(self, st, i, op, seq, out, exc, case):
        v = []

        def bad(sig, what):
            v.append(Violation(sig, what, dict(case, ops=case["ops"][: i + 1])))

        cur = slots_of(seq)
        for name, slots in cur.items():
            ch = seq._schedule[name].channel_obj
            clock, mind = ch.clock_period, ch.min_duration
            if not slots:
                continue
            s0 = slots[0]
            if not (s0.type == "target" and s0.ti == -1 and s0.tf == 0):
                bad("first-slot", f"channel {name}: first slot is {s0}")
            for k, s in enumerate(slots[1:], 1):
                p = slots[k - 1]
                if s.ti != p.tf:
                    bad("gap-or-overlap", f"channel {name}: slot {k} starts at {s.ti}, previous ends at {p.tf}")
                if s.tf < s.ti:
                    bad("negative-length", f"channel {name}: slot {k} = ({s.ti},{s.tf})")
                if s.ti < 0 or s.tf % clock != 0 or s.ti % clock != 0:
                    bad("clock-misaligned", f"channel {name}: slot {k} = ({s.ti},{s.tf}) clock {clock}")
                kind = slot_kind(s)
                ln = s.tf - s.ti
                if kind == "pulse" and ln != s.type.duration:
                    bad("pulse-length", f"channel {name}: pulse slot length {ln} != duration {s.type.duration}")
                if kind == "delay" and ln < mind:
                    bad("short-delay", f"channel {name}: delay of {ln} < min_duration {mind}")
                if kind == "pulse" and ln < mind:
                    bad("short-pulse", f"channel {name}: pulse slot of {ln} < min_duration {mind}")
                if kind == "target" and ln != 0 and ln < mind:
                    bad("short-retarget", f"channel {name}: retarget of {ln} < min_duration {mind}")
            # times never move
            prev = st["prev"].get(name)
            if prev is not None:
                if len(slots) < len(prev) or any(
                    (a.ti, a.tf, slot_kind(a)) != (b.ti, b.tf, slot_kind(b)) for a, b in zip(prev, slots)
                ):
                    bad("times-moved", f"channel {name}: previously scheduled instructions changed")
            # reported durations
            d = seq._schedule[name].get_duration()
            if d != slots[-1].tf:
                bad("duration", f"channel {name}: reported duration {d} != end of last slot {slots[-1].tf}")
            df = seq._schedule[name].get_duration(include_fall_time=True)
            exp = slots[-1].tf
            for s in reversed(slots):
                if isinstance(s.type, Pulse):
                    exp = max(exp, s.tf + indep_fall(s.type, ch, seq._schedule[name].in_eom_mode()))
                    break
            if df != exp:
                slow_eom = (
                    ch.supports_eom()
                    and seq._schedule[name].in_eom_mode()
                    and ch.eom_config.rise_time > ch.rise_time
                )
                bad(
                    "duration-with-fall" + (":eom-slower-than-channel" if slow_eom else ""),
                    f"channel {name}: duration incl. fall {df} != {exp}",
                )
        for name in st["prev"]:
            if name not in cur:
                bad("channel-vanished", f"channel {name} disappeared")
        if cur:
            tot = seq._schedule.get_duration()
            if tot != max((s[-1].tf if s else 0) for s in cur.values()):
                bad("sequence-duration", f"sequence duration {tot} is not the max over channels")
            # ... and with the pending fall times: the max over channels of each channel's own
            # duration with fall time (each of which is judged above), also through the public query
            want_f = max(seq._schedule[n].get_duration(include_fall_time=True) for n in cur)
            tot_f = seq._schedule.get_duration(include_fall_time=True)
            if tot_f != want_f:
                bad("sequence-duration-with-fall", f"sequence duration incl. fall {tot_f} is not the max over channels ({want_f})")
            for n in cur:
                for fall in (False, True):
                    a = seq._schedule.get_duration(n, include_fall_time=fall)
                    b = seq._schedule[n].get_duration(include_fall_time=fall)
                    if a != b:
                        bad("channel-duration-query", f"get_duration({n!r}, fall={fall}) = {a}, channel reports {b}")
        st["prev"] = cur
        return v


CHECK = C02()
