"""C03 - addressing-conflict protocols: no conflict, minimal delay, exact estimate."""
from __future__ import annotations

import json

from harness.framework import Violation
from harness.seqprop import indep_phase_jump, indep_rise, indep_fall, SeqProp, slots_of
from pulser import Pulse
from pulser.sequence._schedule import _ChannelSchedule


def fall(cs, slot):
    return indep_fall(slot.type, cs.channel_obj, cs.in_eom_mode())


def round_delay(ch, delta):
    """the smallest admissible automatic delay >= delta (0 stays 0)"""
    if delta <= 0:
        return 0
    d = max(delta, ch.min_duration)
    c = ch.clock_period
    return -(-d // c) * c


class C03(SeqProp):
    id = "C03"
    props_file = "Props/C03.v"
    focus = "conflict"
    quick_cases = 800
    thorough_cases = 6000
    assumptions = [
        "fall times of pulses (FFT modulation) enter the model as oracle inputs; the soundness theorem assumes fall <= 2*rise_time of the scanned channel",
    ]

    def pick_focus(self, rng):
        return rng.choice(["conflict", "conflict", "conflict", "local", "phase", None, "eom"])

    def oracle_init(self, case):
        return dict(prev={}, prev_refs={}, last_est=None)

    def oracle_step(self, st, i, op, seq, out, exc, case):
        v = []

        def bad(sig, what):
            v.append(Violation(sig, what, dict(case, ops=case["ops"][: i + 1])))

        cur = slots_of(seq)
        prev = st["prev"]
        k = op["op"]
        name = op.get("channel")
        ok = exc is None
        if k in ("add", "add_eom", "add_dmm") and ok and name in cur and name in prev and prev[name]:
            cs = seq._schedule[name]
            ch = cs.channel_obj
            new = cur[name][-1]
            t0 = prev[name][-1].tf
            proto = op.get("protocol", 1 if k == "add_dmm" else 0)
            if isinstance(new.type, Pulse) and len(cur[name]) > len(prev[name]):
                ti = new.ti
                tg = set(new.targets)
                # barrier: latest phase shift of the targets (before this call)
                basis = ch.basis
                barrier = 0
                for q in tg:
                    r = st["prev_refs"].get(basis, {}).get(q)
                    if r is not None:
                        barrier = max(barrier, r)
                conflict = t0
                slow_eom = False
                for n2, cs2 in seq._schedule.items():
                    if n2 == name:
                        continue
                    sl2 = prev.get(n2, [])
                    # most recent pulse of that channel that shares a target (or any, wait-for-all)
                    for q in reversed(sl2):
                        if isinstance(q.type, Pulse) and (proto == 2 or (set(q.targets) & tg)):
                            end = q.tf + fall(cs2, q)
                            ch2 = cs2.channel_obj
                            slow2 = bool(
                                ch2.supports_eom() and cs2.in_eom_mode() and ch2.eom_config.rise_time > ch2.rise_time
                                and sl2 and sl2[-1] is not q
                            )
                            if proto in (0, 2):
                                conflict = max(conflict, end)
                                if ti < end:
                                    slow_eom = slow_eom or slow2
                                    bad(
                                        ("starts-before-conflicting-pulse-ended" if proto == 0 else "wait-for-all:starts-before-other-channel-ended")
                                        + (":eom-slower-than-channel" if slow2 else ""),
                                        f"channel {name}: pulse starts at {ti}, channel {n2} pulse ends (with fall) at {end}",
                                    )
                            break
                if ti < barrier:
                    bad("starts-before-phase-barrier", f"channel {name}: pulse starts at {ti} < latest phase shift of its targets {barrier}")
                # earliest admissible start
                if proto == 1:
                    want = t0 + round_delay(ch, max(t0, barrier) - t0)
                    if ti != want:
                        bad("no-delay-not-exact", f"channel {name}: starts at {ti}, expected {want} (t0={t0}, barrier={barrier})")
                else:
                    e = max(t0, barrier, conflict)
                    pjb = 0
                    lps = None
                    for q in reversed(prev[name]):
                        if isinstance(q.type, Pulse) and not _ChannelSchedule.is_detuned_delay(q.type):
                            lps = q
                            break
                    if lps is not None and float(lps.type.phase) != float(new.type.phase) and not op.get("correct"):
                        ie = cs.in_eom_mode()
                        pjb = max(indep_phase_jump(ch), 2 * indep_rise(ch) * ie) + indep_fall(lps.type, ch, ie) - (t0 - lps.tf)
                    if not op.get("correct"):
                        want = t0 + round_delay(ch, max(e - t0, pjb))
                        if ti < want:
                            bad("starts-too-early" + (":eom-slower-than-channel" if slow_eom else ""),
                                f"channel {name}: starts at {ti}, earliest admissible {want}")
                        elif ti > want:
                            bad("not-minimal", f"channel {name}: starts at {ti}, earliest admissible {want} (t0={t0}, barrier={barrier}, conflict={conflict}, pj={pjb})")
                # estimate == inserted
                le = st["last_est"]
                if le is not None and k == "add" and le["i"] == i - 1 and le["key"] == json.dumps([op.get("pulse"), name, proto], sort_keys=True):
                    if le["val"] != ti - t0:
                        bad("estimate-differs", f"channel {name}: estimate {le['val']}, inserted {ti - t0}")
        if k == "estimate" and ok:
            st["last_est"] = dict(i=i, key=json.dumps([op.get("pulse"), name, op.get("protocol", 0)], sort_keys=True), val=out[1])
        if k == "align" and ok:
            chs = op["channels"]
            at_rest = op.get("at_rest", True)
            ends_before = []
            for n in chs:
                sl = prev.get(n, [])
                e = sl[-1].tf if sl else 0
                if at_rest:
                    # end including the pending fall time of the last pulse (before the call)
                    for q in reversed(sl):
                        if isinstance(q.type, Pulse):
                            e = max(e, q.tf + fall(seq._schedule[n], q))
                            break
                ends_before.append(e)
            T = max(ends_before) if ends_before else 0
            ends_after = {n: (cur[n][-1].tf if cur.get(n) else 0) for n in chs}
            if len(set(ends_after.values())) > 1 or any(e != T for e in ends_after.values()):
                rounding = all(
                    T <= e < T + seq._schedule[n].channel_obj.clock_period + seq._schedule[n].channel_obj.min_duration
                    or e == (prev[n][-1].tf if prev.get(n) else 0)
                    for n, e in ends_after.items()
                )
                over = any((prev[n][-1].tf if prev.get(n) else 0) > T for n in chs)
                sig = "align-ends-differ"
                if rounding and not over:
                    sig += ":delay-rounded-up-to-min-duration-or-clock"
                bad(sig, f"align{tuple(chs)} at_rest={at_rest}: ends {ends_after}, latest end before the call {T}")
        st["prev"] = cur
        st["prev_refs"] = {
            b: {q: int(r.phase.last_time) for q, r in d.items()} for b, d in seq._basis_ref.items()
        }
        return v


CHECK = C03()
