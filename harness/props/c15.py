"""C15 - EOM mode: square pulses, physical off-detuning, buffers, drift correction."""
from __future__ import annotations

import math
import warnings

import numpy as np

from harness import common
from harness.framework import Violation
from harness.seqprop import indep_fall, SeqProp, slots_of
from pulser import Pulse
from pulser.channels.eom import RydbergBeam

TOL = 1e-9


def round_delay(ch, delta):
    if delta <= 0:
        return 0
    d = max(delta, ch.min_duration)
    c = ch.clock_period
    return -(-d // c) * c


def allowed_off_detunings(eom, rabi, det_on):
    """offset + light shift of the beams left on, per allowed switching
    combination - written from the documentation, independently of the code"""
    bias = {RydbergBeam.RED: -eom.red_shift_coeff, RydbergBeam.BLUE: eom.blue_shift_coeff}
    lim = eom.limiting_beam
    other = ~lim
    sf = math.sqrt(eom.red_shift_coeff / eom.blue_shift_coeff if lim == RydbergBeam.RED else eom.blue_shift_coeff / eom.red_shift_coeff)
    D = eom.intermediate_detuning
    limit_rabi = sf * eom.max_limiting_amp**2 / (2 * D)
    if rabi <= limit_rabi:
        base = 2 * rabi * D
        amps = {lim: math.sqrt(base / sf), other: math.sqrt(base * sf)}
    else:
        amps = {lim: eom.max_limiting_amp, other: 2 * D * rabi / eom.max_limiting_amp}

    def ls(beams):
        return sum(bias[b] * amps[b] ** 2 for b in beams) / (4 * D)

    offset = det_on - ls(list(RydbergBeam))
    combos = [(b,) for b in eom.controlled_beams]
    if len(eom.controlled_beams) > 1 and eom.multiple_beam_control:
        combos.append(tuple(RydbergBeam))
    return [offset + ls([b for b in RydbergBeam if b not in off]) for off in combos]


class C15(SeqProp):
    id = "C15"
    props_file = "Props/C15.v"
    focus = "eom"
    quick_cases = 800
    thorough_cases = 6000
    extra_targets = ["Model/Chan.v", "Model/SeqSnap.v", "Model/Eom.v"]
    assumptions = [
        "sqrt in the beam shift factor and the emulator's populations are numeric (compared with tolerance)",
        "the chosen off-detuning enters the sequence model as an oracle input; its choice is modelled separately (Model/Eom.v) and compared bit-exactly",
    ]

    def oracle_init(self, case):
        return dict(prev={}, eom_before={})

    def oracle_step(self, st, i, op, seq, out, exc, case):
        v = []

        def bad(sig, what):
            v.append(Violation(sig, what, dict(case, ops=case["ops"][: i + 1])))

        cur = slots_of(seq)
        prev = st["prev"]
        k = op["op"]
        name = op.get("channel")
        ok = exc is None
        for n, slots in cur.items():
            cs = seq._schedule[n]
            ch = cs.channel_obj
            was_in = st["eom_before"].get(n, False)
            new = slots[len(prev.get(n, [])):]
            if not cs.eom_blocks:
                continue
            blk = cs.eom_blocks[-1]
            inside = [s for s in new if blk.ti <= s.ti and (blk.tf is None or s.ti < blk.tf)]
            for s in inside:
                if isinstance(s.type, Pulse):
                    a = np.asarray(s.type.amplitude.samples.as_array(detach=True), dtype=float)
                    d = np.asarray(s.type.detuning.samples.as_array(detach=True), dtype=float)
                    sq_on = np.all(a == float(blk.rabi_freq)) and np.all(d == float(blk.detuning_on))
                    sq_off = np.all(a == 0.0) and np.all(d == float(blk.detuning_off))
                    if not (sq_on or sq_off):
                        bad("eom-pulse-not-square-at-setpoint", f"channel {n}: pulse in EOM block has amp {set(a.tolist())} det {set(d.tolist())}, block ({float(blk.rabi_freq)}, {float(blk.detuning_on)}, off {float(blk.detuning_off)})")
                elif s.type == "delay" and float(blk.detuning_off) != 0.0 and s.tf > s.ti:
                    bad("eom-idle-not-at-off-detuning", f"channel {n}: plain delay {s.ti}-{s.tf} inside an EOM block with off-detuning {float(blk.detuning_off)}")
        if ok and k in ("enable_eom", "modify_eom") and name in cur:
            cs = seq._schedule[name]
            ch = cs.channel_obj
            blk = cs.eom_blocks[-1]
            eom = ch.eom_config
            # the off-detuning is the allowed value closest to the requested optimum
            try:
                allowed = allowed_off_detunings(eom, float(op["amp_on"]), float(op["det_on"]))
            except Exception:  # noqa: BLE001
                allowed = None
            if allowed:
                off = float(blk.detuning_off)
                opt = float(op.get("opt_off", 0.0))
                scale = max(1.0, max(abs(x) for x in allowed))
                if min(abs(off - x) for x in allowed) > 1e-9 * scale:
                    bad("off-detuning-not-in-allowed-set", f"channel {name}: off-detuning {off}, allowed {allowed}")
                elif any(abs(x - opt) < abs(off - opt) - 1e-9 * scale for x in allowed):
                    bad("off-detuning-not-closest", f"channel {name}: chose {off} for optimum {opt}, allowed {allowed}")
                if float(blk.rabi_freq) != float(op["amp_on"]) or float(blk.detuning_on) != float(op["det_on"]):
                    bad("eom-block-setpoint", f"channel {name}: block ({blk.rabi_freq}, {blk.detuning_on}) for request ({op['amp_on']}, {op['det_on']})")
            # buffer
            before = prev.get(name, [])
            if k == "enable_eom" and before and before[-1].tf > 0:
                new = cur[name][len(before):]
                want = round_delay(ch, int(eom.custom_buffer_time or 2 * ch.rise_time))
                if not new:
                    bad("eom-buffer-missing", f"channel {name}: enable on a non-empty channel appended nothing")
                else:
                    b = new[-1]
                    if b.tf - b.ti != want:
                        bad("eom-buffer-length", f"channel {name}: buffer of {b.tf - b.ti} ns, configured {want}")
                    if blk.ti != b.tf:
                        bad("eom-block-start", f"channel {name}: block starts at {blk.ti}, buffer ends at {b.tf}")
                    off = float(blk.detuning_off)
                    if off != 0.0:
                        okb = isinstance(b.type, Pulse) and np.all(np.asarray(b.type.amplitude.samples.as_array(detach=True)) == 0) and np.all(
                            np.asarray(b.type.detuning.samples.as_array(detach=True)) == off)
                        if not okb:
                            bad("eom-buffer-not-at-off-detuning", f"channel {name}: buffer {b.type} for off-detuning {off}")
                    # after the previous pulse has ramped down
                    for q in reversed(before):
                        if isinstance(q.type, Pulse):
                            end = q.tf + indep_fall(q.type, ch, False)
                            if b.ti < end:
                                bad("eom-buffer-before-ramp-down", f"channel {name}: buffer starts at {b.ti}, previous pulse ramps down until {end}")
                            break
        if ok and k == "disable_eom" and name in cur:
            cs = seq._schedule[name]
            ch = cs.channel_obj
            eom = ch.eom_config
            before = prev.get(name, [])
            new = cur[name][len(before):]
            blk = cs.eom_blocks[-1]
            if before and blk.tf != before[-1].tf:
                bad("eom-block-end", f"channel {name}: block closed at {blk.tf}, channel ended at {before[-1].tf}")
            if eom.custom_buffer_time:
                want = round_delay(ch, int(eom.custom_buffer_time))
                if not new or new[-1].tf - new[-1].ti != want or new[-1].type != "delay":
                    bad("eom-closing-buffer", f"channel {name}: closing buffer {[(s.type if isinstance(s.type, str) else 'pulse', s.ti, s.tf) for s in new]}, configured {want}")
            else:
                for q in reversed(before):
                    if isinstance(q.type, Pulse):
                        end = q.tf + indep_fall(q.type, ch, True)
                        if cur[name][-1].tf < end:
                            bad("eom-disable-before-ramp-down" + (":eom-slower-than-channel" if eom.rise_time > ch.rise_time else ""), f"channel {name}: ends at {cur[name][-1].tf}, last EOM pulse ramps down until {end}")
                        break
        # drift correction of an EOM pulse: the references of its targets move by the pulse's
        # post-phase-shift minus the phase accumulated at the off-detuning while the channel idled
        # (from the end of its last real pulse, or the block's start, to the start of this pulse)
        refs_now = {b: {q: float(r.phase.last_phase) for q, r in d.items()} for b, d in seq._basis_ref.items()}
        if ok and k == "add_eom" and op.get("correct") and name in cur and name in prev and len(cur[name]) > len(prev[name]):
            cs = seq._schedule[name]
            new = cur[name][-1]
            if isinstance(new.type, Pulse) and cs.eom_blocks:
                blk = cs.eom_blocks[-1]
                last_tf = 0
                for sl in reversed(prev[name]):
                    if isinstance(sl.type, Pulse) and not cs.is_detuned_delay(sl.type):
                        last_tf = sl.tf
                        break
                drift = -float(blk.detuning_off) * (new.ti - max(int(blk.ti), last_tf)) * 1e-3
                want = float(op.get("post", 0.0)) - drift
                basis = cs.channel_obj.basis
                for q in new.targets:
                    r0 = st.get("refs", {}).get(basis, {}).get(q)
                    r1 = refs_now.get(basis, {}).get(q)
                    if r0 is not None and r1 is not None:
                        dlt = (r1 - r0 - want) % (2 * math.pi)
                        if min(dlt, 2 * math.pi - dlt) > 1e-9:
                            bad("drift-corrected-reference", f"channel {name}, atom {q}: reference moved by {(r1 - r0) % (2 * math.pi)}, post-phase-shift minus drift is {want % (2 * math.pi)}")
        st["refs"] = refs_now
        st["prev"] = cur
        st["eom_before"] = {n: cs.in_eom_mode() for n, cs in seq._schedule.items()}
        return v

    def oracle_final(self, st, case, run):
        """what the sampler (and so the emulator) sees: between the pulses of an EOM block
        the detuning is that block's off-detuning, and a channel left in EOM mode idles at
        the off-detuning of its LATEST setpoint when its samples are extended"""
        v = []
        seq = run.get("seq")
        if seq is None:
            return v
        from pulser.sampler import sample

        try:
            ss = sample(seq)
        except Exception:  # noqa: BLE001  (sampling is C06's subject)
            return v
        for n, cs in seq._schedule.items():
            if not cs.eom_blocks or n not in ss.channels:
                continue
            chs = ss.channel_samples[n]
            amp = np.asarray(chs.amp, dtype=float)
            det = np.asarray(chs.det, dtype=float)
            L = len(det)
            driven = np.zeros(L, dtype=bool)
            for s in cs.slots:
                if isinstance(s.type, Pulse) and not cs.is_detuned_delay(s.type):
                    driven[s.ti : s.tf] = True
            for blk in cs.eom_blocks:
                tf = L if blk.tf is None else min(blk.tf, L)
                idle = ~driven[blk.ti : tf]
                if idle.any() and not np.all(det[blk.ti : tf][idle] == float(blk.detuning_off)):
                    v.append(Violation("sampled-eom-idle-not-at-off-detuning", f"channel {n}: block {blk.ti}-{blk.tf} off-detuning {float(blk.detuning_off)}, sampled idle detuning {sorted(set(det[blk.ti:tf][idle].tolist()))[:4]}", case))
            ext = chs.extend_duration(L + 24)
            tail_det = np.asarray(ext.det, dtype=float)[L:]
            tail_amp = np.asarray(ext.amp, dtype=float)[L:]
            last = cs.eom_blocks[-1]
            want = float(last.detuning_off) if last.tf is None else 0.0
            if not (np.all(tail_det == want) and np.all(tail_amp == 0.0)):
                v.append(Violation("extended-samples-not-at-latest-off-detuning", f"channel {n}: left {'in' if last.tf is None else 'out of'} EOM mode, latest off-detuning {float(last.detuning_off)}; extension holds detuning {sorted(set(tail_det.tolist()))} amplitude {sorted(set(tail_amp.tolist()))}", case))
        return v

    # ---- the off-detuning choice, model vs implementation (bit-exact), and the emulator test
    def extra_checks(self, tier, rng):
        from pulser.channels.eom import RydbergEOM

        v = []
        items = []
        n = 150 if tier == "quick" else 1500
        for _ in range(n):
            eom = RydbergEOM(
                limiting_beam=rng.choice(list(RydbergBeam)),
                max_limiting_amp=rng.choice([60.0, 100.0, 188.0]),
                intermediate_detuning=rng.choice([2000.0, 4398.0, 700.0 * 2 * math.pi]),
                controlled_beams=tuple(rng.choice([[RydbergBeam.BLUE], [RydbergBeam.RED], [RydbergBeam.BLUE, RydbergBeam.RED]])),
                mod_bandwidth=40.0,
                multiple_beam_control=rng.random() < 0.5,
                blue_shift_coeff=rng.choice([1.0, 1.0, 1.5, 0.5]),
                red_shift_coeff=rng.choice([1.0, 1.0, 2.0]),
            )
            rabi = rng.choice([0.5, 1.0, 2.0, 4.0, 9.0, 20.0])
            det_on = rng.choice([0.0, -1.0, 2.0, 60.0])
            opt = rng.choice([0.0, -5.0, 3.0, -40.0, 1e3, -1e3])
            with warnings.catch_warnings():
                warnings.simplefilter("ignore")
                opts = [float(x) for x in np.asarray(eom.detuning_off_options(rabi, det_on).as_array(detach=True)).ravel()]
                if rng.random() < 0.3 and opts:
                    opt = rng.choice(opts)  # exactly an option (ties / idempotence)
                if rng.random() < 0.15 and len(opts) >= 2:
                    opt = (opts[0] + opts[1]) / 2  # equidistant: first wins
                got = float(eom.calculate_detuning_off(rabi, det_on, opt))
                allowed = allowed_off_detunings(eom, rabi, det_on)
            scale = max(1.0, max(abs(x) for x in allowed))
            if len(allowed) != len(opts) or any(abs(a - b) > 1e-9 * scale for a, b in zip(allowed, opts)):
                v.append(Violation("off-detuning-options-not-the-documented-set", f"options {opts}, documented {allowed}", dict(scenario="options", rabi=rabi, det_on=det_on)))
            items.append((opts, opt, got))
        text = (
            "From Coq Require Import ZArith List Bool.\nFrom Coq Require Import Uint63 FloatOps SpecFloat PrimFloat.\n"
            "From PV Require Import Model.Base Model.Eom.\nImport ListNotations.\nOpen Scope Z_scope.\n"
            "Definition all_pairs : list (sv * sv) := [\n"
            + ";\n".join(
                "(run_closest %s %s, %s)" % (common.coq_list(common.coq_float(x) for x in o), common.coq_float(opt), common.sv([got]))
                for o, opt, got in items
            )
            + "].\nDefinition bad : list Z := Eval vm_compute in mismatches all_pairs.\nEval vm_compute in bad.\n"
        )
        rc, out = common.coq_eval(common.WORK / self.id, "closest_cases", text)
        if rc != 0:
            v.append(Violation("correspondence:closest-cases-do-not-evaluate", out[-400:], dict(scenario="closest")))
        else:
            for b in common.parse_Z_list(out)[:5]:
                o, opt, got = items[b]
                v.append(Violation("correspondence:off-detuning-choice-differs-from-model", f"options {o}, optimum {opt}: implementation {got}", dict(scenario="closest", options=o, optimum=opt, got=got)))
        v += self.drift_test(tier, rng)
        return v

    def drift_test(self, tier, rng):
        """populations with drift correction == populations with zero off-detuning (emulator, test)"""
        v = []
        try:
            from pulser import Register, Sequence
            from pulser.channels import Rydberg
            from pulser.channels.eom import RydbergEOM
            from pulser.devices import VirtualDevice
            from pulser_simulation import QutipEmulator
        except Exception as e:  # noqa: BLE001
            return [Violation("drift:cannot-run-emulator", repr(e), dict(scenario="drift"))]

        def device(controlled):
            eom = RydbergEOM(
                limiting_beam=RydbergBeam.RED, max_limiting_amp=40 * 2 * math.pi, intermediate_detuning=700 * 2 * math.pi,
                controlled_beams=controlled, mod_bandwidth=40.0, multiple_beam_control=True,
            )
            chn = Rydberg.Global(None, None, mod_bandwidth=8.0, eom_config=eom, clock_period=1, min_duration=1)
            return VirtualDevice(name="D", dimensions=2, rydberg_level=60, channel_objects=(chn,), channel_ids=("r",),
                                 min_atom_distance=0, max_atom_num=None, max_radial_distance=None)

        for k in range(3 if tier == "quick" else 15):
            gap = rng.choice([0, 40, 100, 252])
            use_modify = rng.random() < 0.5
            pops = []
            for controlled in ((RydbergBeam.BLUE,), (RydbergBeam.BLUE, RydbergBeam.RED)):
                with warnings.catch_warnings():
                    warnings.simplefilter("ignore")
                    seq = Sequence(Register({"q0": (0.0, 0.0)}), device(controlled))
                    seq.declare_channel("c", "r")
                    amp = 2.0
                    T = int(round((math.pi / 2) / amp * 1e3))
                    seq.enable_eom_mode("c", amp_on=amp, detuning_on=0.0, optimal_detuning_off=0.0, correct_phase_drift=True)
                    off = float(seq._schedule["c"].eom_blocks[-1].detuning_off)
                    seq.add_eom_pulse("c", T, 0.0, correct_phase_drift=True)
                    if gap:
                        seq.delay(gap, "c")
                    if use_modify:
                        seq.modify_eom_setpoint("c", amp_on=amp, detuning_on=0.0, optimal_detuning_off=0.0, correct_phase_drift=True)
                    seq.add_eom_pulse("c", T, 0.0, correct_phase_drift=True)
                    seq.disable_eom_mode("c", correct_phase_drift=True)
                    res = QutipEmulator.from_sequence(seq, sampling_rate=1.0).run()
                    st = np.asarray(res.get_final_state().full()).ravel()
                    pops.append((off, np.abs(st) ** 2))
            (off1, p1), (off0, p0) = pops
            if abs(off0) > 1e-9 or abs(off1) < 1e-6:
                continue  # the configuration pair did not give (non-zero, zero) off-detunings
            if np.max(np.abs(p1 - p0)) > 5e-3:
                v.append(Violation("drift:populations-differ-from-zero-off-detuning", f"gap {gap}, modify={use_modify}: {p1.tolist()} vs {p0.tolist()} (off-detuning {off1})", dict(scenario="drift", gap=gap, modify=use_modify)))
        return v

    def replay(self, payload):
        case = payload.get("case") or {}
        if isinstance(case, dict) and "scenario" in case:
            import random

            viols = [x for x in self.extra_checks("quick", random.Random(20260926)) if x.signature == payload.get("signature")]
            for x in viols:
                print("REPRODUCED:", x.signature, "-", x.what)
            return 1 if viols else 0
        return super().replay(payload)


CHECK = C15()
