"""C18 - switching device or register preserves the program."""
from __future__ import annotations

import copy
import random
import warnings

import numpy as np

from harness import seqgen, seqimpl
from harness.framework import Violation
from harness.props.c09 import timeline
from harness.seqprop import SeqProp
from pulser import Pulse, Register
from pulser.channels import DMM
from pulser.sampler import sample

TIMING = ["clock_period", "min_duration", "max_duration", "mod_bandwidth", "custom_phase_jump_time",
          "min_retarget_interval", "fixed_retarget_t"]
LIMITS = ["max_amp", "max_abs_detuning", "min_avg_amp", "max_targets"]
STRICT_COMPARED = {"mod_bandwidth", "fixed_retarget_t", "clock_period"}


def perturb_device(rng: random.Random, dev: dict):
    """a second device: same channels with a random subset of parameters changed,
    optionally reordered / renamed; returns (device, {channel id -> changed params})"""
    new = copy.deepcopy(dev)
    changed = {}
    single = rng.random() < 0.6
    the_one = rng.randrange(len(new["channels"]))
    for ci, c in enumerate(new["channels"]):
        ch = []
        if single:
            if ci != the_one:
                changed[c["id"]] = ch
                continue
            cand = ["eom", "eom", "eom"] if c.get("eom") is not None else []
            cand += ["min_retarget_interval", "min_retarget_interval", "fixed_retarget_t"] if c["addressing"] == "Local" else []
            cand += TIMING + LIMITS
            plist = [rng.choice(cand)]
        else:
            plist = rng.sample(TIMING + LIMITS + ["eom"], rng.choice([1, 1, 1, 2, 3])) if rng.random() < 0.75 else []
        if True:
            for p in plist:
                if p == "clock_period":
                    c[p] = rng.choice([1, 2, 4, 5, 8])
                elif p == "min_duration":
                    c[p] = rng.choice([1, 4, 5, 16, 17, 80])
                elif p == "max_duration":
                    c[p] = rng.choice([10**8, 2**26, 400, 403, None])
                elif p == "mod_bandwidth":
                    c[p] = rng.choice([None, 4.0, 8.0, 40.0, 120.0])
                    if c.get("eom") is not None and c[p] is None:
                        c[p] = 8.0
                elif p == "custom_phase_jump_time":
                    c[p] = rng.choice([None, 0, 7, 100])
                elif p == "min_retarget_interval" and c["addressing"] == "Local":
                    c[p] = rng.choice([0, 37, 220])
                elif p == "fixed_retarget_t" and c["addressing"] == "Local":
                    c[p] = rng.choice([0, 40, 53])
                elif p == "max_amp":
                    c[p] = rng.choice([None, 2.0, 8.0, 100.0])
                elif p == "max_abs_detuning":
                    c[p] = rng.choice([None, 2.0, 8.0, 50.0])
                elif p == "min_avg_amp":
                    c[p] = rng.choice([0, 0.25, 1.0])
                elif p == "max_targets" and c["addressing"] == "Local":
                    c[p] = rng.choice([None, 1, 2, 3])
                elif p == "eom" and c.get("eom") is not None:
                    e = c["eom"]
                    q = rng.choice(["mod_bandwidth", "custom_buffer_time", "custom_buffer_time", "max_limiting_amp", "max_limiting_amp", "controlled_beams", "drop"])
                    if q == "mod_bandwidth":
                        e[q] = rng.choice([24.0, 40.0, 60.0, 2.0])
                    elif q == "custom_buffer_time":
                        e[q] = rng.choice([None, 37, 240, 500])
                    elif q == "max_limiting_amp":
                        e[q] = rng.choice([100.0, 188.0, 60.0])
                    elif q == "controlled_beams":
                        e[q] = rng.choice([["BLUE"], ["RED"], ["BLUE", "RED"]])
                    else:
                        c["eom"] = None
                    p = "eom." + q
                else:
                    continue
                ch.append(p)
        changed[c["id"]] = ch
    old = {c["id"]: c for c in dev["channels"]}
    real = {}
    for c in new["channels"]:
        diffs = sorted(k for k in set(c) | set(old[c["id"]]) if k != "eom" and c.get(k) != old[c["id"]].get(k))
        if c.get("eom") != old[c["id"]].get("eom"):
            eo, en = old[c["id"]].get("eom") or {}, c.get("eom") or {}
            diffs += sorted("eom." + k for k in set(eo) | set(en) if eo.get(k) != en.get(k)) or ["eom"]
        real[c["id"]] = diffs
    # the DMMs' own limits and timing
    for d in new.get("dmms", []):
        if rng.random() < 0.35:
            p = rng.choice(["bottom_detuning", "total_bottom_detuning", "total_bottom_detuning", "clock_period", "min_duration"])
            d[p] = {"bottom_detuning": rng.choice([None, -20.0, -6.0, -2.0]), "total_bottom_detuning": rng.choice([None, -40.0, -8.0, -3.0]),
                    "clock_period": rng.choice([1, 4]), "min_duration": rng.choice([1, 16])}[p]
            if d["bottom_detuning"] is not None and d["total_bottom_detuning"] is not None and d["bottom_detuning"] < d["total_bottom_detuning"]:
                d["total_bottom_detuning"] = d["bottom_detuning"] * 2
    if rng.random() < 0.4:
        rng.shuffle(new["channels"])
    if rng.random() < 0.3:
        new["reusable"] = not new.get("reusable", False)
    if rng.random() < 0.2:
        new["max_sequence_duration"] = rng.choice([None, 700, 3000, 100000])
    return new, real


def samples_equal(a, b):
    """sampled amplitude / detuning / phase arrays equal up to float noise (1e-9)"""
    sa, sb = sample(a), sample(b)

    def canon(s):
        out = []
        for ch in s.channels:
            x = s.channel_samples[ch]
            out.append(("dmm" if ch.startswith("dmm_") else ch, [np.asarray(getattr(x, f), dtype=float) for f in ("amp", "det", "phase")]))
        return sorted(out, key=lambda t: (t[0], len(t[1][0]), float(np.nansum(t[1][0]))))

    ca, cb = canon(sa), canon(sb)
    if [t[0] for t in ca] != [t[0] for t in cb]:
        return False
    for (_, xs), (_, ys) in zip(ca, cb):
        for u, w in zip(xs, ys):
            if u.shape != w.shape or not np.allclose(u, w, rtol=0.0, atol=1e-9, equal_nan=True):
                return False
    return True


class C18(SeqProp):
    id = "C18"
    props_file = "Props/C18.v"
    focus = "mix"
    quick_cases = 250
    thorough_cases = 2000
    assumptions = [
        "the switched sequence is compared with the original on: channel names, slot kinds/times/targets, pulse samples and phases, EOM blocks, and the sampled amplitude/detuning/phase arrays",
    ]

    def gen_case(self, rng, tier):
        n_ops = rng.randint(3, 16) if tier == "quick" else rng.randint(3, 35)
        from harness.props.c01 import has_unit_ramp

        while True:
            case = seqgen.gen_case(rng, n_ops=n_ops, focus=rng.choice(seqgen.FOCI + ["eom", "eom", "local", "local"]), invalid_rate=0.04, query_rate=0.03)
            # RampWaveform(1, ..) is a NaN sample (C16/C01 finding): not an input of this property
            if not any(has_unit_ramp(o) for o in case["ops"]):
                break
        dev2, changed = perturb_device(rng, case["device"])
        case["device2"] = dev2
        case["changed"] = changed
        case["seed2"] = rng.randrange(10**9)
        return case

    def oracle_init(self, case):
        return dict(prev=None, tainted=False)

    def oracle_step(self, st, i, op, seq, out, exc, case):
        # a failed call that changed the state in one of the ways listed as C09 known
        # findings makes the record of calls unrepresentative of the state: such cases
        # are not judged here.  Any OTHER failed call that changes the state is not
        # excused: the replays below will then differ and be reported.
        from harness import common
        from harness.props.c09 import classify, state, what_changed

        if "c09_known" not in st:
            st["c09_known"] = {f["signature"] for f in common.load_known_findings()["findings"] if f["property"] == "C09"}
        cur = state(seq)
        prev = st["prev"]
        if exc is not None:
            if prev is None:
                from pulser import Sequence

                with warnings.catch_warnings():
                    warnings.simplefilter("ignore")
                    prev = state(Sequence(seq._register, seq.device))
            if cur != prev:
                ks, detail = what_changed(prev, cur)
                if classify(op, exc, ks, detail, seq) in st["c09_known"]:
                    st["tainted"] = True
        st["prev"] = cur
        return []

    def oracle_final(self, st, case, run):
        v = []
        if st["tainted"] or "device2" not in case:
            return v
        seq = run["seq"]
        if not seq._schedule:
            return v
        # switch_device enumerates every assignment of the declared channels to the new device's
        # channels (itertools.product): (number of device channels) ** (number of declared channels)
        # candidates.  Sequences for which that search is astronomically large are not switched here
        # (a cost of the implementation's algorithm, not a subject of the property).
        n_new = len(case["device2"]["channels"]) + len(case["device2"].get("dmms", []))
        if n_new ** len(seq.declared_channels) > 20000:
            return v

        def bad(sig, what):
            v.append(Violation(sig, what, case))

        with warnings.catch_warnings():
            warnings.simplefilter("ignore")
            dev2 = seqimpl.build_device(case["device2"])
            tl = timeline(seq)
            # channel ids each channel name used
            used = {name: cs.channel_id for name, cs in seq._schedule.items()}
            # ---------- strict: the random second device and every single-parameter variant
            variants = [("random", case["device2"])] + single_param_variants(case["device"], {cs.channel_id for cs in seq._schedule.values()})
            seen_sigs = set()
            for label, dspec in variants:
                try:
                    dv = dev2 if label == "random" else seqimpl.build_device(dspec)
                except Exception:  # noqa: BLE001
                    continue
                for viol in strict_check(seq, tl, dv, dict(case, device2=dspec, variant=label)):
                    if viol.signature not in seen_sigs:
                        seen_sigs.add(viol.signature)
                        v.append(viol)
            # ---------- non strict
            try:
                s3 = seq.switch_device(dev2, strict=False)
            except Exception as e:  # noqa: BLE001
                s3 = None
            if s3 is not None and s3 is not seq:
                v += limits_of(s3, case)
            # ---------- register
            try:
                reg2 = Register(dict(zip(seq._register.qubit_ids, [np.array(c) for c in seq._register._coords])))
                s4 = seq.switch_register(reg2)
                if timeline(s4) != tl:
                    bad("switch-register-changed-timeline", "identical ids and coordinates")
            except Exception as e:  # noqa: BLE001
                bad(f"switch-register-raises:{type(e).__name__}", repr(e)[:200])
        return v


def parametrized_strict_scenarios(tier, rng):
    """strict switch of PARAMETRIZED sequences (no samples exist yet, so everything rests on the
    comparison of the channel parameters): whenever switch_device(strict=True) returns, building the
    original and the switched sequence with the same values must give the same timeline and samples.
    Two sequence channels may sit on the same device channel (reusable device), only one in EOM mode."""
    from pulser import Register, Sequence

    from harness import seqimpl

    v = []
    base_eom = dict(mod_bandwidth=24.0, custom_buffer_time=None, limiting_beam="RED", controlled_beams=["BLUE"],
                    multiple_beam_control=True, max_limiting_amp=188.0, intermediate_detuning=4398.0)

    def chan(i, e, **kw):
        c = dict(id=f"ch{i}", kind="Rydberg", addressing="Global", clock_period=4, min_duration=16, max_duration=10**8,
                 mod_bandwidth=8.0, custom_phase_jump_time=None, max_amp=None, max_abs_detuning=None, min_avg_amp=0)
        c.update(kw)
        if e:
            c["eom"] = dict(e)
        return c

    n = 0
    for eom_p, vals in EOM_ALT.items():
        for val in vals:
            if base_eom.get(p_ := eom_p) == val:
                continue
            for layout in ("two-on-one-id", "two-ids", "single"):
                for eom_on in ("second", "first"):
                    if layout == "single" and eom_on == "first":
                        continue
                    n += 1
                    if tier == "quick" and n % 3:
                        continue
                    e2 = dict(base_eom)
                    e2[p_] = val
                    devs = []
                    for e in (base_eom, e2):
                        chs = [chan(0, e)] + ([chan(1, e)] if layout == "two-ids" else [])
                        devs.append(seqimpl.build_device(dict(channels=chs, dmms=[], max_sequence_duration=None, reusable=True, slm=False)))
                    case = dict(scenario="parametrized-strict", eom_param=p_, value=val, layout=layout, eom_on=eom_on)
                    with warnings.catch_warnings():
                        warnings.simplefilter("ignore")
                        try:
                            seq = Sequence(Register.rectangle(1, 2, spacing=8, prefix="q"), devs[0])
                            names = ["a"] if layout == "single" else ["a", "b"]
                            seq.declare_channel("a", "ch0")
                            if layout != "single":
                                seq.declare_channel("b", "ch0" if layout == "two-on-one-id" else "ch1")
                            x = seq.declare_variable("x", dtype=float)
                            t = seq.declare_variable("t", dtype=int)
                            em = names[-1] if eom_on == "second" else names[0]
                            for nm in names:
                                if nm == em:
                                    seq.enable_eom_mode(nm, 4.0 + 0 * x, 1.0, 0.0)
                                    seq.add_eom_pulse(nm, t, 0.0)
                                    seq.delay(100, nm)
                                    seq.add_eom_pulse(nm, 100, 0.5, correct_phase_drift=True)
                                else:
                                    seq.add(Pulse.ConstantPulse(t, x, 0.0, 0.0), nm)
                        except Exception as e:  # noqa: BLE001
                            v.append(Violation("parametrized-strict:cannot-build-scenario", repr(e)[:200], case))
                            continue
                        try:
                            s2 = seq.switch_device(devs[1], strict=True)
                        except Exception:  # noqa: BLE001
                            continue  # "either raises ..."
                        try:
                            b1 = seq.build(x=1.5, t=200)
                            b2 = s2.build(x=1.5, t=200)
                            same = samples_equal(b1, b2) and [(n_, tuple((s_.ti, s_.tf) for s_ in cs.slots)) for n_, cs in b1._schedule.items()] == [
                                (n_, tuple((s_.ti, s_.tf) for s_ in cs.slots)) for n_, cs in b2._schedule.items()]
                        except Exception as e:  # noqa: BLE001
                            v.append(Violation(f"parametrized-strict:build-raises:{type(e).__name__}", repr(e)[:200], case))
                            continue
                    if not same:
                        v.append(Violation(f"parametrized-strict-switch-changed-samples:eom.{p_}",
                                           f"strict switch of a parametrized sequence accepted a device whose EOM {p_} is {val!r}; built sequences differ", case))
    return v


ALT = {
    "clock_period": [1, 4, 8], "min_duration": [1, 16, 80], "max_duration": [10**8, 400, None],
    "mod_bandwidth": [4.0, 40.0], "custom_phase_jump_time": [None, 0, 100],
    "min_retarget_interval": [0, 220], "fixed_retarget_t": [0, 40],
    "max_amp": [None, 2.0], "max_abs_detuning": [None, 2.0], "min_avg_amp": [0, 1.0], "max_targets": [None, 1],
}
EOM_ALT = {
    "mod_bandwidth": [24.0, 60.0], "custom_buffer_time": [None, 240, 500], "max_limiting_amp": [60.0, 188.0],
    "controlled_beams": [["BLUE"], ["BLUE", "RED"]], "multiple_beam_control": [True, False],
    "intermediate_detuning": [2000.0, 4398.0], "limiting_beam": ["RED", "BLUE"],
}


def single_param_variants(dev, used_ids):
    out = []
    for k, c in enumerate(dev["channels"]):
        if c["id"] not in used_ids:
            continue
        for p, vals in ALT.items():
            if p in ("min_retarget_interval", "fixed_retarget_t", "max_targets") and c["addressing"] != "Local":
                continue
            for val in vals:
                if c.get(p) == val:
                    continue
                if p == "mod_bandwidth" and val is None and c.get("eom") is not None:
                    continue
                d = copy.deepcopy(dev)
                d["channels"][k][p] = val
                out.append((f"{c['id']}.{p}={val}", d))
        if c.get("eom") is not None:
            for p, vals in EOM_ALT.items():
                for val in vals:
                    if c["eom"].get(p, True if p == "multiple_beam_control" else None) == val:
                        continue
                    d = copy.deepcopy(dev)
                    d["channels"][k]["eom"][p] = val
                    out.append((f"{c['id']}.eom.{p}={val}", d))
    if dev.get("max_sequence_duration") is not None:
        d = copy.deepcopy(dev)
        d["max_sequence_duration"] = None
        out.append(("max_sequence_duration=None", d))
    return out


def strict_check(seq, tl, dev2, case):
    v = []

    def bad(sig, what):
        v.append(Violation(sig, what, case))

    if True:
        if True:
                try:
                    s2 = seq.switch_device(dev2, strict=True)
                except Exception as e:  # noqa: BLE001
                    s2 = None
                    # "either raises or returns ...": any refusal is within the property
                if s2 is not None and s2 is not seq:
                    # DMM channel names are derived from the device's DMM ids: compare them as a multiset
                    # (EOM block records are not compared: what they play is in the slots and the samples)
                    canon = lambda T: sorted(((("dmm" if n.startswith("dmm_") else n), sl) for n, _, sl, eo in T), key=repr)  # noqa: E731
                    same_tl = canon(tl) == canon(timeline(s2))
                    try:
                        same_smp = samples_equal(seq, s2)
                    except Exception as e:  # noqa: BLE001
                        same_smp = False
                    if not (same_tl and same_smp):
                        # which parameters differ between each old channel and the one it was matched to
                        params = set()
                        for name, cs2 in s2._schedule.items():
                            if name not in seq._schedule:
                                continue
                            o, n = seq._schedule[name].channel_obj, cs2.channel_obj
                            for p in TIMING + LIMITS + ["bottom_detuning", "total_bottom_detuning"]:
                                if getattr(o, p, None) != getattr(n, p, None):
                                    params.add(p)
                            eo, en = getattr(o, "eom_config", None), getattr(n, "eom_config", None)
                            if eo != en:
                                params.add("eom_config")
                        if seq.device.max_sequence_duration != dev2.max_sequence_duration:
                            params.add("max_sequence_duration")
                        unchecked = sorted(params - STRICT_COMPARED)
                        sig = "strict-switch-changed-" + ("timeline" if not same_tl else "samples")
                        known = sorted(set(unchecked) & {"min_duration", "custom_phase_jump_time", "max_duration", "max_sequence_duration"})
                        # DMM channels declared in another order than their ids (dmm_1 before dmm_0): the
                        # replay renames them, but calls that name a DMM channel generically (delay, align)
                        # are not renamed with them and land on the other DMM
                        dmm_ids = []
                        for nm in seq.declared_channels:
                            if nm.startswith("dmm_"):
                                try:
                                    dmm_ids.append(int(nm.split("_")[1]))
                                except (ValueError, IndexError):
                                    pass
                        if len(dmm_ids) >= 2 and dmm_ids != sorted(dmm_ids):
                            sig += ":dmm-channels-declared-out-of-id-order"
                        elif known:
                            # the automatic delays depend on these and strict mode does not compare them
                            sig += ":uncompared-timing-parameter"
                        elif set(unchecked) & {"bottom_detuning", "total_bottom_detuning"}:
                            # the SLM mask's detuning pulse is capped by the DMM's bottom detunings
                            sig += ":uncompared-dmm-bottom-detuning"
                        elif unchecked == ["eom_config"] and same_smp:
                            # a different EOM buffer time moves slot boundaries between idle slots;
                            # what is played (the sampled arrays) is identical
                            sig += ":eom-buffer-slot-boundaries-only"
                        elif unchecked:
                            sig += ":other:" + "+".join(unchecked)
                        else:
                            sig += ":no-parameter-differs"
                        bad(sig, f"strict switch accepted; matched channels differ in {sorted(params)}")
    return v


def limits_of(seq, case):
    """every limit of the (new) device on every scheduled instruction (C01/C02 reading)"""
    v = []

    def bad(sig, what):
        v.append(Violation("nonstrict-switch:" + sig, what, case))

    maxseq = seq._schedule.max_duration
    for name, cs in seq._schedule.items():
        ch = cs.channel_obj
        for k, s in enumerate(cs.slots):
            if maxseq is not None and s.tf > maxseq:
                bad("over-device-max", f"{name}: ends {s.tf} > {maxseq}")
            if k and (s.ti != cs.slots[k - 1].tf or s.ti % ch.clock_period or s.tf % ch.clock_period):
                bad("timeline-not-tiled", f"{name}: slot {k} ({s.ti},{s.tf}) clock {ch.clock_period}")
            if isinstance(s.type, Pulse):
                a = np.asarray(s.type.amplitude.samples.as_array(detach=True), dtype=float)
                d = np.asarray(s.type.detuning.samples.as_array(detach=True), dtype=float)
                if not (np.all(np.isfinite(a)) and np.all(np.isfinite(d))):
                    continue
                dur = s.tf - s.ti
                if dur < ch.min_duration:
                    bad("duration-below-min", f"{name}: {dur} < {ch.min_duration}")
                if ch.max_duration is not None and dur > ch.max_duration and not (ch.max_duration % ch.clock_period and dur - ch.max_duration < ch.clock_period):
                    bad("duration-above-max", f"{name}: {dur} > {ch.max_duration}")
                if ch.max_amp is not None and np.any(a > ch.max_amp):
                    bad("amplitude-above-max", f"{name}: {a.max()} > {ch.max_amp}")
                if ch.max_abs_detuning is not None and np.any(np.abs(d) > ch.max_abs_detuning + 1e-6):
                    bad("detuning-above-max", f"{name}: {np.abs(d).max()} > {ch.max_abs_detuning}")
                avg = float(np.average(a))
                if 0 < avg < ch.min_avg_amp * (1 - 1e-9):
                    bad("average-below-min", f"{name}: {avg} < {ch.min_avg_amp}")
                dmap = getattr(cs, "detuning_map", None)
                if dmap is not None:
                    # a DMM: detuning never positive, never below the per-atom / total bottom detuning
                    # given the weights of THIS channel's detuning map
                    w = np.asarray(dmap.weights, dtype=float)
                    dr = np.round(d, 6)
                    if np.any(dr > 0):
                        bad("dmm-positive-detuning", f"{name}: {dr.max()}")
                    bot, tot = getattr(ch, "bottom_detuning", None), getattr(ch, "total_bottom_detuning", None)
                    if bot is not None and w.max() * dr.min() < bot - 1e-9:
                        bad("dmm-below-bottom", f"{name}: {w.max()} * {dr.min()} < {bot}")
                    if tot is not None and w.sum() * dr.min() < tot - 1e-9:
                        bad("dmm-below-total-bottom", f"{name}: {w.sum()} * {dr.min()} < {tot}")
            elif s.type == "delay" and s.tf - s.ti < ch.min_duration:
                bad("delay-below-min", f"{name}: {s.tf - s.ti} < {ch.min_duration}")
    return v


def register_limit_scenarios(tier, rng):
    """non-strict switch to a device with tighter REGISTER limits (number of atoms, minimum distance,
    maximum radius), for plain registers, registers defined from a layout and mappable registers:
    the result satisfies the new device's limits or the call raises"""
    import dataclasses
    import itertools

    from pulser import Register, Sequence
    from pulser.devices import MockDevice
    from pulser.register.special_layouts import SquareLatticeLayout

    v = []
    layout = SquareLatticeLayout(3, 3, 6)
    regs = {
        "plain": lambda: Register.from_coordinates([(0, 0), (6, 0), (12, 0), (0, 6), (6, 6)], prefix="q"),
        "layout": lambda: layout.define_register(0, 1, 2, 3),
        "layout-centre": lambda: layout.define_register(4, 3),
        "mappable": lambda: layout.make_mappable_register(4),
    }
    from pulser.register.register_layout import RegisterLayout

    lay7 = RegisterLayout([[6.0 * i, 0.0] for i in range(7)])
    lay11 = RegisterLayout([[6.0 * i, 0.0] for i in range(11)])
    regs.update({
        # filling fractions whose product with the number of traps is not an integer
        "layout-4-of-7": lambda: lay7.define_register(0, 1, 2, 3),
        "layout-3-of-7": lambda: lay7.define_register(0, 1, 2),
        "mappable-4-of-7": lambda: lay7.make_mappable_register(4),
        "layout-6-of-11": lambda: lay11.define_register(0, 1, 2, 3, 4, 5),
    })
    limits = [dict(max_atom_num=3), dict(min_atom_distance=7.0), dict(max_radial_distance=5), dict(max_atom_num=4), dict(max_radial_distance=20),
              dict(max_layout_filling=0.5), dict(max_layout_filling=0.4)]
    for (rname, mk), lim in itertools.product(regs.items(), limits):
        case = dict(scenario="register-limits", register=rname, limits=lim)
        with warnings.catch_warnings():
            warnings.simplefilter("ignore")
            try:
                dev2 = dataclasses.replace(MockDevice, name="Tight", **lim)
                roomy = dataclasses.replace(MockDevice, name="Roomy", max_layout_filling=1.0)
                seq = Sequence(mk(), roomy)
                seq.declare_channel("g", "rydberg_global")
                seq.add(Pulse.ConstantPulse(100, 1.0, 0.0, 0.0), "g")
            except Exception as e:  # noqa: BLE001
                v.append(Violation("register-limits:cannot-build-scenario", repr(e)[:200], case))
                continue
            try:
                s2 = seq.switch_device(dev2, strict=False)
                if rname.startswith("mappable"):
                    s2 = s2.build(qubits={"q0": 0, "q1": 1, "q2": 2, "q3": 3})
            except Exception:  # noqa: BLE001
                continue  # "... or the call raises"
            coords = np.array([np.asarray(c, dtype=float) for c in s2.register.qubits.values()], dtype=float)
            n = len(coords)
            dmin = min((float(np.linalg.norm(a - b)) for i, a in enumerate(coords) for b in coords[i + 1:]), default=np.inf)
            rad = float(np.max(np.linalg.norm(coords, axis=1))) if n else 0.0
            if "max_atom_num" in lim and n > lim["max_atom_num"]:
                v.append(Violation("nonstrict-switch:register-too-many-atoms", f"{rname}: {n} atoms on a device with max_atom_num={lim['max_atom_num']}", case))
            if "min_atom_distance" in lim and dmin < lim["min_atom_distance"] - 1e-6:
                v.append(Violation("nonstrict-switch:register-atoms-too-close", f"{rname}: minimum distance {dmin} < {lim['min_atom_distance']}", case))
            lay = getattr(s2.register, "layout", None)
            if "max_layout_filling" in lim and lay is not None and n > lim["max_layout_filling"] * lay.number_of_traps + 1e-9:
                v.append(Violation("nonstrict-switch:layout-overfilled", f"{rname}: {n} atoms on {lay.number_of_traps} traps, max_layout_filling={lim['max_layout_filling']}", case))
            if "max_radial_distance" in lim and rad > lim["max_radial_distance"] + 1e-6:
                v.append(Violation("nonstrict-switch:register-too-wide", f"{rname}: radius {rad} > {lim['max_radial_distance']}", case))
    return v


def _extra(self, tier, rng):
    return parametrized_strict_scenarios(tier, rng) + register_limit_scenarios(tier, rng)


def _replay(self, payload):
    case = payload.get("case") or {}
    if isinstance(case, dict) and case.get("scenario") == "parametrized-strict":
        import random

        viols = [x for x in parametrized_strict_scenarios("thorough", random.Random(0)) if x.signature == payload.get("signature") and x.case == case]
        for x in viols:
            print("REPRODUCED:", x.signature, "-", x.what)
        return 1 if viols else 0
    if isinstance(case, dict) and case.get("scenario") == "register-limits":
        import random

        viols = [x for x in register_limit_scenarios("thorough", random.Random(0)) if x.signature == payload.get("signature") and x.case == case]
        for x in viols:
            print("REPRODUCED:", x.signature, "-", x.what)
        return 1 if viols else 0
    return SeqProp.replay(self, payload)


C18.extra_checks = _extra
C18.replay = _replay
CHECK = C18()
