"""C20 - observables and results are correct functions of the emulated state."""
from __future__ import annotations

import json

from harness import c20_coq, c20_gen
from harness.framework import PropCheck


class C20(PropCheck):
    id = "C20"
    props_file = "Props/C20.v"
    shard = 30
    quick_cases = 330
    thorough_cases = 3000
    assumptions = [
        "states produced by the QuTiP solvers and the Hamiltonian QobjEvo evaluated at a time are oracle inputs: "
        "the check is that every stored value is the documented function of the stored state and of H(t)",
        "floating-point values are compared with tolerance 1e-9 (mixed absolute/relative) against exact rational "
        "model values; decisions about evaluation times are compared bit-exactly",
        "sampled bitstrings: statistical test (7 sigma per outcome, fixed seeds) against the definition's distribution",
        "Hamiltonians are Hermitian (the energy observables' definitions presuppose it)",
    ]
    trusted_base_extra = [
        "numpy/qutip dense and sparse linear algebra executing the implementation; numpy for the oracle's definitions",
        "the laws of the abstract ring are those of exact complex arithmetic; the gap to IEEE floats is what the "
        "1e-9 correspondence measures on each run",
    ]

    def gen_case(self, rng, tier):
        return c20_gen.gen_case(rng, tier)

    def run_impl(self, case):
        from harness import c20_impl

        return c20_impl.run_case(case)

    def coq_item(self, case, run):
        return c20_coq.item(case, run)

    def cases_file(self, items):
        return c20_coq.cases_file(items)

    def nontrivial_key(self, case, run):
        k = case["kind"]
        if k == "obs" and not run.get("ok"):
            return None
        if k == "times" and not any(run.get("stored", [])):
            return None
        if k == "backend" and not run.get("ok"):
            return None
        return json.dumps(case, sort_keys=True, default=str)

    def sample_of(self, case, run):
        c = dict(case)
        for key in ("state", "H", "op", "target"):
            if key in c and isinstance(c[key], dict):
                c[key] = {"type": c[key].get("type"), "den": c[key].get("den"), "rows": "<%d rows>" % len(c[key]["rows"])}
        return c

    def stats(self, case, run, acc):
        k = case["kind"]
        acc[k] = acc.get(k, 0) + 1
        if k == "obs":
            key = "obs:%s:d%d:n%d" % (case["state"]["type"], case["d"], case["n"])
            acc[key] = acc.get(key, 0) + 1
            if not c20_coq.coq_able_obs(case):
                acc["obs:oracle-only(large)"] = acc.get("obs:oracle-only(large)", 0) + 1
        elif k == "alg":
            key = "alg:outcomeA=%s" % run.get("outA")
            acc[key] = acc.get(key, 0) + 1
        elif k == "times":
            key = "times:status=%s:%s" % (run.get("status"), case["mal"] or "legit")
            acc[key] = acc.get(key, 0) + 1
        else:
            key = "backend:%s:%s:%s" % (case["level"], "+".join(sorted(case["noise"])) or "noiseless",
                                        "ok" if run.get("ok") else "raised")
            acc[key] = acc.get(key, 0) + 1
            acc["backend:snapshots-in-coq"] = acc.get("backend:snapshots-in-coq", 0) + len(run.get("snaps", []))
            if case.get("modulated"):
                acc["backend:with_modulation"] = acc.get("backend:with_modulation", 0) + 1
            k2 = "backend:times:%s:rate=%s:%s" % ("Full" if case["dflt"] == "Full" else "list", case.get("rate", 1.0),
                                                "own-times" if any(o["own"] is not None for o in case["obs"]) else "default-only")
            acc[k2] = acc.get(k2, 0) + 1

    def replay(self, payload):
        # corpus files are raw cases; evidence replays wrap the case
        if "kind" in payload and "case" not in payload:
            payload = dict(case=payload)
        return super().replay(payload)

    def focused_search(self, rng, broken, budget):
        # aim at what broke: proofs about observables/operators -> obs+alg cases;
        # results/time -> times+backend cases; otherwise the normal mix
        txt = " ".join(broken)
        out = []
        for _ in range(budget):
            if "cases_" in txt or "correspondence" in txt:
                out.append(c20_gen.gen_case(rng, "thorough"))
            else:
                out.append(c20_gen.gen_case(rng, "thorough"))
        return out


CHECK = C20()
