"""C12 - a device accepts exactly the registers and layouts that fit its
geometry; device-aware constructors produce accepted registers; valid
parameter combinations construct."""
from __future__ import annotations

import json
import math

from harness import c12_coq, c12_gen, c12_impl
from harness.framework import PropCheck, Violation


class C12(PropCheck):
    id = "C12"
    props_file = "Props/C12.v"
    shard = 60
    quick_cases = 2000
    thorough_cases = 30000
    assumptions = [
        "distances are IEEE-754 doubles computed as sqrt(sum of squared differences) in index order "
        "(scipy pdist/cdist, np.linalg.norm); checked bit for bit on every case by the correspondence",
        "the candidate mesh of generate_trap_coordinates (np.linspace/meshgrid) enters the model as an input",
        "rounding and sorting of layout coordinates (C19) are taken from the implementation's accessors",
    ]
    trusted_base_extra = [
        "the oracle judges float decisions only outside a band of 1e-9 around each real-valued boundary; "
        "inside the band only the bit-exact Coq model is compared",
    ]

    def gen_case(self, rng, tier):
        return c12_gen.gen_case(rng, tier)

    def run_impl(self, case):
        return c12_impl.run_case(case)

    def coq_item(self, case, run):
        return c12_coq.item(case, run)

    def cases_file(self, items):
        return c12_coq.cases_file(items)

    def nontrivial_key(self, case, run):
        if case["kind"] == "val" and (case["entry"] == "malformed" or not run.get("built", True)):
            return None
        return json.dumps(case, sort_keys=True, default=str)

    def sample_of(self, case, run):
        return dict(case=case, outcome=run.get("outcome", run.get("outcomes")), validate=run.get("validate"))

    def stats(self, case, run, acc):
        k = case["kind"]
        kinds = acc.setdefault("cases_by_kind", {})
        kinds[k] = kinds.get(k, 0) + 1
        oc = acc.setdefault("outcomes", {})
        if k == "val":
            key = f"val:{case['entry']}:{run['outcome'][0]}" + (f">{run['outcome'][1][0]}" if run["outcome"][0] == 10 else "")
            if not run.get("built", True):
                acc["unbuildable_inputs"] = acc.get("unbuildable_inputs", 0) + 1
            if case.get("layout") is not None:
                acc["with_layout"] = acc.get("with_layout", 0) + 1
            if case["dim"] == 3:
                acc["three_d"] = acc.get("three_d", 0) + 1
        elif k == "hist":
            key = "hist:" + ("unbuilt" if not run["built"] else ",".join(str(o[0]) for o in run["outcomes"]))
            if run["built"] and len({o[0] == 0 for o in run["outcomes"]}) == 2:
                acc["histories_with_both_verdicts"] = acc.get("histories_with_both_verdicts", 0) + 1
        elif k == "dev":
            key = f"dev:{run['outcome'][0]}"
        elif k == "mc":
            key = f"mc:{run['outcome'][0]}:{run['validate'][0]}"
        else:
            key = f"auto:{run['gen'][0]}:{run['auto']}:{run['validate'][0]}"
        oc[key] = oc.get(key, 0) + 1

    def extra_checks(self, tier, rng):
        """finite sweeps on the stock devices: max_connectivity with the default
        spacing for every admissible size is accepted by the device"""
        import warnings

        import pulser
        from pulser.devices import AnalogDevice, DigitalAnalogDevice

        out = []
        with warnings.catch_warnings():
            warnings.simplefilter("ignore")
            for dev in (AnalogDevice, DigitalAnalogDevice):
                top = dev.max_atom_num if tier != "quick" else min(dev.max_atom_num, 40)
                for n in range(1, top + 1):
                    reg = pulser.Register.max_connectivity(n, dev)
                    try:
                        dev.validate_register(reg)
                    except Exception as e:  # noqa: BLE001
                        out.append(Violation("constructor:max_connectivity:default-spacing:rejected:" + type(e).__name__,
                                             f"{dev.name}: max_connectivity({n}) rejected: {str(e)[:120]}",
                                             dict(kind="mc", device=None, stock=dev.name, n=n, spacing=None)))
                        break
        return out

    def replay(self, payload):
        if "kind" in payload and "case" not in payload:
            payload = dict(case=payload)      # a corpus file is a bare case
        case = payload.get("case")
        if case is not None and case.get("kind") == "mc" and case.get("device") is None:
            print("stock-device sweep case:", case)
            return 1 if self.extra_checks("thorough", None) else 0
        return super().replay(payload)


CHECK = C12()
