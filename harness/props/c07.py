"""C07 - phase references (virtual-Z) are additive and applied to every pulse."""
from __future__ import annotations

import math
import warnings

import numpy as np

from harness.framework import Violation
from harness.seqprop import SeqProp, slots_of
from pulser import Pulse

TWO_PI = 2 * math.pi


def close_mod(a, b, tol=1e-9):
    d = (a - b) % TWO_PI
    return min(d, TWO_PI - d) <= tol


class C07(SeqProp):
    id = "C07"
    props_file = "Props/C07.v"
    focus = "phase"
    quick_cases = 800
    thorough_cases = 6000
    assumptions = [
        "additivity is proved for the tracker operation (mod-2pi float addition, bit-exact model); the oracle compares the running sum with tolerance 1e-9",
        "the emulated Ramsey populations come from QuTiP's solver (test only)",
    ]

    def pick_focus(self, rng):
        return rng.choice(["phase", "phase", "phase", "conflict", "eom", "local", None])

    def oracle_init(self, case):
        return dict(prev={}, exp={}, refs_before={})

    def oracle_step(self, st, i, op, seq, out, exc, case):
        v = []

        def bad(sig, what):
            v.append(Violation(sig, what, dict(case, ops=case["ops"][: i + 1])))

        k = op["op"]
        ok = exc is None
        cur = slots_of(seq)
        prev = st["prev"]
        exp = st["exp"]
        before = st["refs_before"]
        qids = list(seq._register.qubit_ids)
        # references that exist now
        now = {b: {q: float(r.phase.last_phase) for q, r in d.items()} for b, d in seq._basis_ref.items()}
        now_t = {b: {q: int(r.phase.last_time) for q, r in d.items()} for b, d in seq._basis_ref.items()}
        for b in now:
            if b not in exp:
                exp[b] = {q: 0.0 for q in now[b]}  # a new basis starts at zero for every atom
        resync = set()
        if ok:
            if k in ("phase_shift", "phase_shift_index"):
                basis = op.get("basis", "digital")
                tg = op.get("targets", [])
                if k == "phase_shift_index":
                    tg = [qids[j] for j in tg]
                tg = tg or qids
                for q in set(tg):
                    exp[basis][q] = exp[basis][q] + float(op["phi"])
            name = op.get("channel")
            if k in ("add", "add_eom", "add_dmm") and name in cur and name in prev and len(cur[name]) > len(prev[name]):
                cs = seq._schedule[name]
                ch = cs.channel_obj
                new = cur[name][-1]
                basis = ch.basis
                tgs = list(new.targets)
                if isinstance(new.type, Pulse) and k != "add_dmm":
                    # phase of the scheduled pulse = programmed + reference at add time
                    programmed = float(op["pulse"]["phase"]) if k == "add" else float(op["phase"])
                    refs = [before.get(basis, {}).get(q) for q in tgs]
                    if refs and refs[0] is not None and not op.get("correct"):
                        if not close_mod(float(new.type.phase), programmed + refs[0]):
                            bad("pulse-phase-not-programmed-plus-reference",
                                f"channel {name}: scheduled phase {float(new.type.phase)}, programmed {programmed}, reference {refs[0]}")
                    # barrier
                    for q in tgs:
                        t = st.get("times_before", {}).get(basis, {}).get(q)
                        if t is not None and new.ti < t:
                            bad("pulse-before-latest-phase-shift", f"channel {name}: pulse starts at {new.ti}, atom {q} was shifted at {t}")
                    post = float(op["pulse"].get("post", 0.0)) if k == "add" else float(op.get("post", 0.0))
                    for q in tgs:
                        exp[basis][q] = exp[basis][q] + post
                    if op.get("correct") and k == "add_eom" and cs.eom_blocks:
                        # drift correction, re-derived from the schedule: the phase accumulated at
                        # the block's off-detuning while the channel idled, from the end of its last
                        # real pulse (or the start of the block) to the START of this pulse
                        blk = cs.eom_blocks[-1]
                        last_tf = 0
                        for sl in reversed(prev[name]):
                            if isinstance(sl.type, Pulse) and not cs.is_detuned_delay(sl.type):
                                last_tf = sl.tf
                                break
                        drift = -float(blk.detuning_off) * (new.ti - max(int(blk.ti), last_tf)) * 1e-3
                        r0 = before.get(basis, {}).get(tgs[0]) if tgs else None
                        if r0 is not None:
                            if not close_mod(float(new.type.phase), programmed + r0 - drift):
                                bad("eom-pulse-phase-not-programmed-plus-drift-corrected-reference",
                                    f"channel {name}: scheduled phase {float(new.type.phase)}, programmed {programmed}, reference {r0}, drift {drift} (pulse starts at {new.ti})")
                        for q in tgs:
                            exp[basis][q] = exp[basis][q] - drift
                    elif op.get("correct"):
                        resync |= {(basis, q) for q in tgs}
            if k == "disable_eom" and op.get("correct") and name in cur and seq._schedule[name].eom_blocks:
                # leaving EOM mode with drift correction: the atoms the channel targets NOW are shifted by
                # the phase accumulated at the off-detuning from the end of the last real pulse of the block
                # (or the block's start) to the block's end
                cs = seq._schedule[name]
                blk = cs.eom_blocks[-1]
                if blk.tf is not None:
                    last_tf = 0
                    for sl in cs.slots:
                        if isinstance(sl.type, Pulse) and not cs.is_detuned_delay(sl.type) and sl.tf <= blk.tf:
                            last_tf = max(last_tf, sl.tf)
                    shift = float(blk.detuning_off) * (int(blk.tf) - max(int(blk.ti), last_tf)) * 1e-3
                    for q in cur[name][-1].targets:
                        exp[cs.channel_obj.basis][q] = exp[cs.channel_obj.basis][q] + shift
            elif k in ("enable_eom", "modify_eom", "disable_eom") and op.get("correct") and name in cur:
                ch = seq._schedule[name].channel_obj
                resync |= {(ch.basis, q) for q in cur[name][-1].targets}
        if not ok:
            # what a call that raised may have left behind is C09's subject (with its own known
            # findings): the sum of shifts restarts from the references as they are now
            for b in now:
                for q in now[b]:
                    exp[b][q] = now[b][q]
        # EOM drift corrections are not re-derived by the oracle: resynchronise those atoms
        for b, q in resync:
            exp[b][q] = now[b][q]
        for b in now:
            for q in now[b]:
                if not close_mod(now[b][q], exp[b][q]):
                    bad("reference-not-sum-of-shifts", f"basis {b}, atom {q}: reference {now[b][q]}, sum of applied shifts {exp[b][q] % TWO_PI} (after {k})")
                    exp[b][q] = now[b][q]
                if not (0 <= now[b][q] < TWO_PI + 1e-12):
                    bad("reference-out-of-range", f"basis {b}, atom {q}: {now[b][q]}")
        st["prev"] = cur
        st["refs_before"] = now
        st["times_before"] = now_t
        return v

    def extra_checks(self, tier, rng):
        """Ramsey on the emulator: two pi/2 pulses separated by a phase shift phi give
        excitation probability cos^2(phi/2) (test, QuTiP)."""
        v = []
        try:
            from pulser import Register, Sequence
            from pulser.devices import MockDevice
            from pulser_simulation import QutipEmulator
        except Exception as e:  # noqa: BLE001
            return [Violation("ramsey:cannot-run-emulator", repr(e), dict(scenario="ramsey"))]
        n = 8 if tier == "quick" else 40
        for k in range(n):
            phi = rng.choice([0.0, 0.5, 1.0, math.pi / 2, 2.0, math.pi, 4.0, -1.0, 7.5]) if k else math.pi / 3
            how = rng.choice(["phase_shift", "post"])
            with warnings.catch_warnings():
                warnings.simplefilter("ignore")
                reg = Register({"q0": (0.0, 0.0)})
                seq = Sequence(reg, MockDevice)
                seq.declare_channel("r", "raman_local", initial_target="q0")
                # half of the runs: the first pulse comes from a GLOBAL channel of the same basis and the
                # programmed phase alpha is not zero (both pulses carry it: it must drop out)
                mixed = k % 2 == 1
                alpha = rng.choice([0.7, 2.0, -1.1]) if mixed else 0.0
                first = "r"
                if mixed:
                    seq.declare_channel("g", "raman_global")
                    first = "g"
                T = 252
                amp = (math.pi / 2) / (T * 1e-3)
                if how == "post":
                    seq.add(Pulse.ConstantPulse(T, amp, 0.0, alpha, post_phase_shift=phi), first)
                else:
                    seq.add(Pulse.ConstantPulse(T, amp, 0.0, alpha), first)
                    seq.phase_shift(phi, "q0", basis="digital")
                seq.add(Pulse.ConstantPulse(T, amp, 0.0, alpha), "r")
                sim = QutipEmulator.from_sequence(seq, sampling_rate=1.0)
                res = sim.run()
                st = res.get_final_state()
                probs = np.abs(np.asarray(st.full()).ravel()) ** 2
                # digital basis: |g>, |h>; excitation = population of the state that is not the initial one
                p_exc = float(1.0 - probs[0]) if probs[0] > probs[1] or True else float(probs[1])
                init = np.abs(np.asarray(sim.initial_state.full()).ravel()) ** 2
                p_exc = float(1.0 - probs[int(np.argmax(init))])
            want = math.cos(phi / 2) ** 2
            if abs(p_exc - want) > 2e-3:
                v.append(Violation("ramsey:population-not-cos2", f"phi={phi} via {how}{' (global then local channel, programmed phase %s)' % alpha if mixed else ''}: excitation {p_exc}, expected {want}", dict(scenario="ramsey", phi=phi, how=how, mixed=mixed, alpha=alpha)))
        v.extend(self.sampled_phase_checks(tier, rng))
        return v

    def sampled_phase_checks(self, tier, rng):
        """what the emulator is handed (the per-atom samples) carries, over every pulse and for
        every atom the pulse reaches, the programmed phase plus the reference - also in XY mode
        under an SLM mask, where the samples of a global channel are redistributed per atom"""
        from pulser import Register, Sequence
        from pulser.devices import MockDevice
        from pulser.sampler import sample

        v = []
        for k in range(8 if tier == "quick" else 60):
            xy = k % 2 == 0
            mask = k % 4 < 2
            phi = rng.choice([0.5, 1.3, math.pi / 2, 4.0, -1.0])
            shift = rng.choice([0.0, 0.7, 2.5])
            case = dict(scenario="sampled-phase", xy=xy, mask=mask, phi=phi, shift=shift)
            with warnings.catch_warnings():
                warnings.simplefilter("ignore")
                reg = Register.rectangle(1, 3, spacing=8, prefix="q")
                seq = Sequence(reg, MockDevice)
                seq.declare_channel("g", "mw_global" if xy else "rydberg_global")
                basis = "XY" if xy else "ground-rydberg"
                if mask:
                    seq.config_slm_mask(["q0"])
                if shift:
                    seq.phase_shift(shift, basis=basis)
                seq.add(Pulse.ConstantPulse(200, 2.0, 0.0, phi), "g")
                seq.add(Pulse.ConstantPulse(100, 1.0, 0.0, phi + 0.25), "g")
                try:
                    nd = sample(seq).to_nested_dict()
                except Exception as e:  # noqa: BLE001
                    v.append(Violation("sampled-phase:cannot-sample", repr(e)[:200], case))
                    continue
            for q in ("q1", "q2"):
                ph = None
                for scope in ("Local", "Global"):
                    d = nd.get(scope, {}).get(basis, {})
                    d = d.get(q, d) if scope == "Local" else d
                    if isinstance(d, dict) and "phase" in d and np.any(np.asarray(d["amp"], dtype=float) != 0):
                        ph = np.asarray(d["phase"], dtype=float)
                        am = np.asarray(d["amp"], dtype=float)
                        for (a, b, want) in ((0, 200, phi + shift), (200, 300, phi + 0.25 + shift)):
                            seg = ph[a:b][am[a:b] != 0]
                            if len(seg) and not all(close_mod(float(x), want) for x in seg):
                                v.append(Violation("sampled-phase:not-programmed-plus-reference",
                                                   f"{'XY' if xy else 'Ising'}{' + SLM mask' if mask else ''}: atom {q} samples {a}-{b} carry phase {sorted(set(np.round(seg, 6).tolist()))[:3]}, programmed+reference {want % TWO_PI}", case))
                if ph is None:
                    v.append(Violation("sampled-phase:atom-not-driven", f"atom {q} receives no samples", case))
        return v

    def replay(self, payload):
        case = payload.get("case") or {}
        if isinstance(case, dict) and case.get("scenario") == "ramsey":
            import random

            viols = [x for x in self.extra_checks("thorough", random.Random(20260926)) if x.signature == payload.get("signature")]
            for x in viols:
                print("REPRODUCED:", x.signature, "-", x.what)
            return 1 if viols else 0
        return super().replay(payload)


CHECK = C07()
