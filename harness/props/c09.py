"""C09 - a sequence is exactly the effect of its successful calls."""
from __future__ import annotations

import json
import warnings

import numpy as np

from harness import seqimpl
from harness.framework import Violation
from harness.seqprop import SeqProp
from pulser import Pulse, Register, Sequence
from pulser.sequence._schedule import _ChannelSchedule

QUERIES = {"q_duration", "estimate", "q_phase_ref", "q_in_eom", "q_available"}


def pulse_key(p: Pulse):
    a = np.asarray(p.amplitude.samples.as_array(detach=True), dtype=float)
    d = np.asarray(p.detuning.samples.as_array(detach=True), dtype=float)
    return (int(p.duration), float(p.phase), float(p.post_phase_shift), a.tobytes().hex()[:64], d.tobytes().hex()[:64],
            float(np.nansum(a)), float(np.nansum(d)))


def timeline(seq):
    """what 'identical timeline' compares: channels in order, slots, pulses, EOM blocks"""
    out = []
    for name, cs in seq._schedule.items():
        slots = []
        for s in cs.slots:
            t = pulse_key(s.type) if isinstance(s.type, Pulse) else s.type
            if isinstance(s.type, Pulse) and _ChannelSchedule.is_detuned_delay(s.type):
                t = ("detuned-delay",) + t
            slots.append((t, int(s.ti), int(s.tf), tuple(sorted(map(str, s.targets)))))
        eoms = [(float(b.rabi_freq), float(b.detuning_on), float(b.detuning_off), int(b.ti), None if b.tf is None else int(b.tf)) for b in cs.eom_blocks]
        out.append((name, cs.channel_id, tuple(slots), tuple(eoms)))
    return sorted(out)


def state(seq):
    refs = {
        b: {str(q): (tuple(int(t) for t in r.phase._times), tuple(float(p) for p in r.phase._phases), int(r.last_used)) for q, r in d.items()}
        for b, d in seq._basis_ref.items()
    }
    return dict(
        timeline=timeline(seq),
        refs=refs,
        in_xy=bool(seq._in_xy),
        in_ising=bool(seq._in_ising),
        mag=None if seq._mag_field is None else tuple(float(x) for x in seq._mag_field),
        measured=getattr(seq, "_measurement", None),
        empty=bool(seq._empty_sequence),
        building=bool(seq._building),
        ncalls=len(seq._calls),
        ntobuild=len(seq._to_build_calls),
        nvars=len(seq._variables),
        slm=(tuple(sorted(map(str, seq._slm_mask_targets))), seq._slm_mask_dmm),
    )


def diff_keys(a, b):
    return sorted(k for k in a if a[k] != b[k])


def what_changed(before, after):
    ks = diff_keys(before, after)
    detail = []
    if "timeline" in ks:
        tb = {c[0]: c for c in before["timeline"]}
        ta = {c[0]: c for c in after["timeline"]}
        for n in ta:
            if n not in tb:
                detail.append(f"channel {n} added")
            elif ta[n] != tb[n]:
                nb, na = len(tb[n][2]), len(ta[n][2])
                new = [x[0] if isinstance(x[0], str) else ("delay" if x[0][0] == "detuned-delay" else "pulse") for x in ta[n][2][nb:]]
                detail.append(f"channel {n}: +{na - nb} slots {new}" + (" eom-blocks changed" if ta[n][3] != tb[n][3] else ""))
    return ks, detail


def cause_of(op, exc):
    msg = str(exc)
    c = type(exc).__name__
    tb = exc.__traceback__
    while tb is not None:
        if tb.tb_frame.f_code.co_name == "_modulate_slm_mask_dmm":
            # the detuning pulse that implements the SLM mask was refused (too short, too
            # long, beyond the device's duration ...) after the state was already changed
            return c + ":masking-pulse-refused"
        tb = tb.tb_next
    if "duration has to be at least" in msg:
        return c + ":below-min-duration"
    if "duration can be at most" in msg:
        return c + ":above-max-duration"
    if "maximum duration allowed by the device" in msg:
        return c + ":device-max-duration"
    if "magnetic field" in msg.lower():
        return c + ":zero-field"
    if op["op"] == "declare" and op.get("initial_target") is not None:
        return c + ":invalid-initial-target"
    if "has no target" in msg:
        return c + ":channel-without-target"
    if "prior to modulating the DMM" in msg:
        return c + ":slm-dmm-waiting"
    if "total bottom detuning" in msg:
        return c + ":dmm-total-bottom-detuning"
    if "bottom detuning" in msg:
        return c + ":dmm-bottom-detuning"
    if "castable to an int" in msg:
        return c + ":duration-type"
    return c + ":other"


def classify(op, exc, ks, detail, seq):
    """narrow signature of a non-atomic failure: operation, cause, what was kept"""
    k = op["op"]
    kept = set()
    for d in detail:
        if "added" in d:
            kept.add("channel")
        if "eom-blocks changed" in d:
            kept.add("eom-block")
        if "'delay'" in d:
            kept.add("delay")
        if "'target'" in d:
            kept.add("target-slot")
        if "'pulse'" in d:
            kept.add("pulse")
    if k == "declare" or (k in ("config_slm", "config_detuning_map") and "channel" in kept):
        flags = []  # mode flags / references of a kept channel are consequences of it
    else:
        flags = ["flag-" + x for x in ks if x != "timeline"]
        if "pulse" in kept:
            # a kept pulse brings its post-phase-shift / last-used update with it
            flags = [f for f in flags if f != "flag-refs"]
    return f"failed-call-changed-state:{k}:{cause_of(op, exc)}:" + "+".join(sorted(kept) + sorted(flags))


class C09(SeqProp):
    id = "C09"
    props_file = "Props/C09.v"
    focus = "mix"
    quick_cases = 320
    thorough_cases = 4000
    assumptions = [
        "'identical timeline' is compared as: channel order, channel ids, slot kinds and times, targets, pulse durations/phases/samples, EOM blocks",
    ]

    def gen_case(self, rng, tier):
        from harness import seqgen

        n_ops = rng.randint(3, 22) if tier == "quick" else rng.randint(3, 50)
        return seqgen.gen_case(rng, n_ops=n_ops, focus=rng.choice(seqgen.FOCI), invalid_rate=0.25, query_rate=0.15)

    def oracle_init(self, case):
        return dict(prev=None)

    def oracle_step(self, st, i, op, seq, out, exc, case):
        v = []
        cur = state(seq)
        prev = st["prev"]
        if prev is None:
            # state of a fresh sequence
            with warnings.catch_warnings():
                warnings.simplefilter("ignore")
                fresh = Sequence(seq._register, seq.device)
            prev = state(fresh)
        sub = dict(case, ops=case["ops"][: i + 1])
        if exc is not None and cur != prev:
            ks, detail = what_changed(prev, cur)
            st["tainted"] = True
            v.append(Violation(classify(op, exc, ks, detail, seq), f"{op['op']} raised {type(exc).__name__}({str(exc)[:80]!r}) but changed {ks} {detail}", sub))
        if exc is None and op["op"] in QUERIES and cur != prev:
            ks, detail = what_changed(prev, cur)
            v.append(Violation(f"query-changed-state:{op['op']}", f"{ks} {detail}", sub))
        st["prev"] = cur
        return v

    def oracle_final(self, st, case, run):
        v = []
        seq = run["seq"]
        before = state(seq)

        def bad(sig, what):
            v.append(Violation(sig, what, case))

        # read-only operations
        import io
        import contextlib

        from pulser.sampler import sample

        ro = readonly_ops(seq)
        _unused = [
            ("str", lambda: str(seq)),
            ("get_duration", lambda: seq.get_duration()),
            ("sample", lambda: sample(seq)),
            ("to_abstract_repr", lambda: seq.to_abstract_repr()),
            ("_serialize", lambda: seq._serialize()),
            ("declared_channels", lambda: seq.declared_channels),
        ]
        results = {}
        for nm, f in ro:
            try:
                with contextlib.redirect_stdout(io.StringIO()):
                    results[nm] = f()
            except Exception as e:  # noqa: BLE001
                results[nm] = e
            now = state(seq)
            if now != before:
                ks, detail = what_changed(before, now)
                bad(f"read-only-changed-state:{nm}", f"{ks} {detail}")
                before = now
        # reproducible from the record of successful calls
        tl = before["timeline"]
        if st.get("tainted"):
            # a failed call already changed the state (reported above): replaying the
            # record of successful calls cannot reproduce it - same root cause
            return v
        suffix = ""
        case_ops = case["ops"]
        trace = run["trace"]
        glob_ids = {c["id"] for c in case["device"]["channels"] if c["addressing"] == "Global"}
        if any(o["op"] == "declare" and o.get("initial_target") is not None and o.get("channel_id") in glob_ids and t[0][0] == 0
               for o, t in zip(case_ops, trace)):
            suffix = ":initial-target-given-for-global-channel"
        for nm, f in (
            ("build", lambda: seq.build()),
            ("switch_register", lambda: seq.switch_register(Register(dict(zip(seq._register.qubit_ids, [np.array(c) for c in seq._register._coords]))))),
            ("abstract_repr", lambda: Sequence.from_abstract_repr(results["to_abstract_repr"]) if isinstance(results.get("to_abstract_repr"), str) else None),
            ("legacy_json", lambda: Sequence._deserialize(results["_serialize"]) if isinstance(results.get("_serialize"), str) else None),
        ):
            try:
                with warnings.catch_warnings():
                    warnings.simplefilter("ignore")
                    other = f()
            except Exception as e:  # noqa: BLE001
                bad(f"replay-raises:{nm}:{type(e).__name__}{suffix}", f"{nm}: {e!r}"[:300])
                continue
            if other is None:
                r = results.get("to_abstract_repr" if nm == "abstract_repr" else "_serialize")
                bad(f"serialise-raises:{nm}:{type(r).__name__}{suffix}", f"{r!r}"[:300])
                continue
            t2 = timeline(other)
            if t2 != tl:
                if sorted(t2) == sorted(tl):
                    bad(f"replay-differs:{nm}:channel-order-only{suffix}", f"{[c[0] for c in tl]} vs {[c[0] for c in t2]}")
                else:
                    diffs = [a[0] for a, b in zip(sorted(tl), sorted(t2)) if a != b]
                    bad(f"replay-differs:{nm}{suffix}", f"channels differing: {diffs}")
        return v


def readonly_ops(seq):
    from pulser.sampler import sample

    ro = [
        ("str", lambda: str(seq)),
        ("get_duration", lambda: seq.get_duration()),
        ("sample", lambda: sample(seq)),
        ("to_nested_dict", lambda: sample(seq).to_nested_dict()),
        ("to_nested_dict_all_local", lambda: sample(seq).to_nested_dict(all_local=True)),
        ("to_abstract_repr", lambda: seq.to_abstract_repr()),
        ("_serialize", lambda: seq._serialize()),
        ("declared_channels", lambda: seq.declared_channels),
        ("available_channels", lambda: seq.available_channels),
    ]
    if len(seq._schedule):
        ro.append(("draw", lambda: _draw(seq)))
    return ro


def slm_scenarios(rng, n):
    """small XY / Ising sequences with an SLM mask (not in the sequence model):
    read-only operations must not change them"""
    from pulser.devices import MockDevice

    out = []
    for k in range(n):
        with warnings.catch_warnings():
            warnings.simplefilter("ignore")
            nq = rng.choice([2, 3, 4])
            reg = Register.rectangle(1, nq, spacing=8, prefix="q")
            seq = Sequence(reg, MockDevice)
            xy = rng.random() < 0.6
            ids = list(reg.qubit_ids)
            masked = rng.sample(ids, rng.randint(1, nq - 1))
            desc = dict(scenario="slm", k=k, xy=xy, masked=masked, nq=nq)
            if xy:
                seq.declare_channel("mw", "mw_global")
                if rng.random() < 0.5:
                    seq.declare_channel("mw2", "mw_global")
            else:
                seq.declare_channel("ryd", "rydberg_global")
            first = rng.random() < 0.5
            if first:
                seq.config_slm_mask(masked)
            for _ in range(rng.randint(1, 3)):
                ch = rng.choice(list(seq.declared_channels))
                if ch.startswith("dmm"):
                    continue
                seq.add(Pulse.ConstantPulse(rng.choice([100, 200]), rng.choice([1.0, 2.0]), 0.0, rng.choice([0.0, 1.0])), ch)
            if not first:
                seq.config_slm_mask(masked)
            out.append((desc, seq))
    return out


def mode_scenarios():
    """enumerated histories of the mode-setting calls (declarations, detuning maps, SLM mask,
    magnetic field) on a physical (channels used once) and a virtual (reusable) device: every
    prefix x every next call; when the next call raises, nothing may have changed"""
    from pulser.devices import DigitalAnalogDevice, MockDevice

    def dm(seq):
        ids = list(seq._register.qubit_ids)
        return seq._register.define_detuning_map({ids[0]: 1.0, ids[1]: 0.0})

    calls = {
        "slm0": lambda s: s.config_slm_mask(list(s._register.qubit_ids)[:1], "dmm_0"),
        "slm1": lambda s: s.config_slm_mask(list(s._register.qubit_ids)[:1], "dmm_1"),
        "det0": lambda s: s.config_detuning_map(dm(s), "dmm_0"),
        "det1": lambda s: s.config_detuning_map(dm(s), "dmm_1"),
        "ryd": lambda s: s.declare_channel("ryd", "rydberg_global"),
        "ryd_again": lambda s: s.declare_channel("ryd2", "rydberg_global"),
        "same_name": lambda s: s.declare_channel("ryd", "raman_local"),
        "mw": lambda s: s.declare_channel("mw", "mw_global"),
        "ghost": lambda s: s.declare_channel("x", "no_such_channel"),
        "mag": lambda s: s.set_magnetic_field(0.0, 0.0, 30.0),
        "mag0": lambda s: s.set_magnetic_field(0.0, 0.0, 0.0),
        "pulse": lambda s: s.add(Pulse.ConstantPulse(100, 1.0, 0.0, 0.0), list(s.declared_channels)[0]),
    }
    prefixes = [[], ["slm0"], ["det0"], ["ryd"], ["mw"], ["mag"], ["slm0", "ryd"], ["ryd", "slm0"], ["ryd", "pulse"],
                ["mw", "pulse"], ["slm0", "det1"], ["ryd", "pulse", "slm0"], ["mw", "slm0"]]
    out = []
    for dev_name, dev in (("DigitalAnalogDevice", DigitalAnalogDevice), ("MockDevice", MockDevice)):
        for pre in prefixes:
            for nxt in calls:
                out.append((dict(scenario="mode", device=dev_name, prefix=pre, call=nxt), dev, pre, nxt, calls))
    return out


def mode_checks():
    v = []
    for desc, dev, pre, nxt, calls in mode_scenarios():
        with warnings.catch_warnings():
            warnings.simplefilter("ignore")
            seq = Sequence(Register.rectangle(1, 3, spacing=8, prefix="q"), dev)
            try:
                for c in pre:
                    calls[c](seq)
            except Exception:  # noqa: BLE001
                continue  # this prefix is not a valid history on this device

            def full(s):
                st = state(s)
                st["available"] = tuple(sorted(s.available_channels))
                st["declared"] = tuple(s.declared_channels)
                return st

            before = full(seq)
            try:
                calls[nxt](seq)
            except Exception as e:  # noqa: BLE001
                after = full(seq)
                if after != before:
                    kind = {"slm0": "config_slm", "slm1": "config_slm", "det0": "config_detmap", "det1": "config_detmap", "mag": "set_mag",
                            "mag0": "set_mag", "pulse": "add"}.get(nxt, "declare")
                    ks, detail = what_changed(before, after)
                    # the channels on offer follow from the mode flags and the declared channels
                    ks = [x for x in ks if x not in ("available", "declared")] or ks
                    v.append(Violation(classify(dict(op=kind), e, ks, detail, seq),
                                       f"{desc['device']}: after {pre}, {nxt} raised {type(e).__name__}({str(e)[:70]!r}) but changed {ks}", desc))
    return v


def copy_independence_checks():
    """a sequence obtained from another one (switch_register, switch_device, build, a serialisation
    round trip) reflects only its own calls from then on: whatever is done to the copy - declaring a
    variable or a channel, adding a pulse, a phase shift, measuring - leaves the original as it was,
    and the other way round"""
    from pulser.devices import MockDevice

    def mk(param):
        with warnings.catch_warnings():
            warnings.simplefilter("ignore")
            seq = Sequence(Register.rectangle(1, 2, spacing=8, prefix="q"), MockDevice)
            seq.declare_channel("r", "rydberg_global")
            seq.add(Pulse.ConstantPulse(100, 1.0, 0.0, 0.0), "r")
            if param:
                x = seq.declare_variable("x", dtype=float)
                seq.add(Pulse.ConstantPulse(100, x, 0.0, 0.0), "r")
        return seq

    makers = {
        "switch_register": lambda s: s.switch_register(Register.rectangle(1, 2, spacing=8, prefix="q")),
        "switch_device": lambda s: s.switch_device(MockDevice),
        "switch_device-strict": lambda s: s.switch_device(MockDevice, strict=True),
        "build": lambda s: s.build(x=1.0) if s.is_parametrized() else s.build(),
        "abstract-repr": lambda s: Sequence.from_abstract_repr(s.to_abstract_repr()),
        "legacy-json": lambda s: Sequence._deserialize(s._serialize()),
    }
    edits = {
        "declare_variable": lambda s: s.declare_variable("u", dtype=int),
        "declare_channel": lambda s: s.declare_channel("extra", "raman_local", initial_target="q0"),
        "add": lambda s: s.add(Pulse.ConstantPulse(200, 2.0, 0.0, 1.0, post_phase_shift=0.5), "r"),
        "phase_shift": lambda s: s.phase_shift(0.7, "q0", basis="ground-rydberg"),
        "delay": lambda s: s.delay(300, "r"),
        "measure": lambda s: s.measure("ground-rydberg"),
    }

    def full(s):
        st = state(s)
        st["vars"] = tuple(sorted(s.declared_variables))
        st["declared"] = tuple(s.declared_channels)
        st["calls"] = tuple(c.name for c in s._calls) + ("|",) + tuple(c.name for c in s._to_build_calls)
        return st

    v = []
    for param in (False, True):
        for mname, make in makers.items():
            for ename, edit in edits.items():
                for who in ("copy", "original"):
                    case = dict(scenario="copy-independence", parametrized=param, via=mname, edit=ename, edited=who)
                    with warnings.catch_warnings():
                        warnings.simplefilter("ignore")
                        try:
                            orig = mk(param)
                            cp = make(orig)
                        except Exception:  # noqa: BLE001
                            continue  # this way of copying does not apply to this sequence
                        if cp is orig:
                            continue
                        victim, actor = (orig, cp) if who == "copy" else (cp, orig)
                        try:
                            before = full(victim)
                        except Exception:  # noqa: BLE001
                            continue
                        try:
                            edit(actor)
                        except Exception:  # noqa: BLE001
                            continue  # the edit itself is refused here (e.g. on a built, measured copy)
                        after = full(victim)
                    if after != before:
                        ks = diff_keys(before, after)
                        v.append(Violation(f"copy-not-independent:{mname}:{ename}",
                                           f"{mname} of a {'parametrized' if param else 'concrete'} sequence: {ename} on the {who} changed the other one's {ks}", case))
    return v


def _draw(seq):
    import matplotlib.pyplot as plt

    with warnings.catch_warnings():
        warnings.simplefilter("ignore")
        seq.draw(show=False) if "show" in seq.draw.__code__.co_varnames else seq.draw()
    plt.close("all")


def _extra(self, tier, rng):
    import contextlib
    import io

    v = []
    for desc, seq in slm_scenarios(rng, 24 if tier == "quick" else 200):
        before = state(seq)
        before["qids"] = tuple(sorted(map(str, seq._qids)))
        for nm, f in readonly_ops(seq):
            try:
                with contextlib.redirect_stdout(io.StringIO()), warnings.catch_warnings():
                    warnings.simplefilter("ignore")
                    f()
            except Exception:  # noqa: BLE001
                pass
            now = state(seq)
            now["qids"] = tuple(sorted(map(str, seq._qids)))
            if now != before:
                ks = diff_keys(before, now)
                v.append(Violation(f"read-only-changed-state:{nm}", f"SLM scenario {desc}: changed {ks}", desc))
                before = now
    v.extend(mode_checks())
    v.extend(copy_independence_checks())
    return v


def _replay(self, payload):
    case = payload.get("case") or {}
    if isinstance(case, dict) and case.get("scenario") == "slm":
        import random

        viols = [x for x in _extra(self, "quick", random.Random(20260926)) if x.signature == payload.get("signature")]
        for x in viols:
            print("REPRODUCED:", x.signature, "-", x.what)
        return 1 if viols else 0
    if isinstance(case, dict) and case.get("scenario") == "copy-independence":
        viols = [x for x in copy_independence_checks() if x.signature == payload.get("signature") and x.case == case]
        for x in viols:
            print("REPRODUCED:", x.signature, "-", x.what)
        return 1 if viols else 0
    if isinstance(case, dict) and case.get("scenario") == "mode":
        viols = [x for x in mode_checks() if x.signature == payload.get("signature") and x.case == case]
        for x in viols:
            print("REPRODUCED:", x.signature, "-", x.what)
        return 1 if viols else 0
    return SeqProp.replay(self, payload)


C09.extra_checks = _extra
C09.replay = _replay
CHECK = C09()
