"""C12 - seeded case generator.  Pure Python (never imports pulser): every
random choice comes from the `random.Random` handed in by the driver.

Four kinds of cases:
  val  : a device, a register (optionally defined from a layout) and an entry
         point (validate_register / Sequence / validate_layout /
         Sequence(MappableRegister) / validate_layout_filling / malformed)
  dev  : a combination of device parameters handed to Device / VirtualDevice
  mc   : Register.max_connectivity(n, device, spacing)
  auto : Register.with_automatic_layout(device)
Coordinates are built so that atoms sit at, just inside and just outside each
limit (the Coq model is bit-exact, so boundaries are welcome)."""
from __future__ import annotations

import math
import random

NAMES = ["q0", "q1", "a", "b", "zz", "k7", "m", "x9", "atom", "q10", "c", "d", "e5", "f", "g", "h",
         "i1", "j", "l", "n", "o", "p", "r", "s", "t", "u", "v", "w", "y", "z", "aa", "bb", "cc",
         "dd", "ee", "ff", "gg", "hh", "ii", "jj"]

DELTAS = [0.0, 0.0, 1e-7, -1e-7, 9e-7, -9e-7, 1e-6, -1e-6, -1.1e-6, 1.1e-6, -2e-6, 2e-6,
          -0.5, 0.5, 1.0, -1e-3, 1e-9, -1e-9]
NEAR = [0.0, 5e-7, 9.99e-7, 1e-6, 1.01e-6, 2e-6, 1e-7]
FILLS = [0.5, 0.5, 0.5, 1.0, 0.58, 0.29, 0.35, 0.75, 0.9, 0.1, 0.25, 0.41, 0.57, 0.3]


def valid_device(rng: random.Random, cls=None, small=False) -> dict:
    cls = cls or rng.choice(["Device", "VirtualDevice"])
    virt = cls == "VirtualDevice"
    dim = rng.choice([2, 2, 3])
    min_dist = rng.choice([0, 0.0, 1, 4, 5, 5.0, 2.5, 4.000001, 0.3, 1.5, 5.000001, 0, 2e-6, 1e-6])
    max_atoms = rng.choice(([None, None] if virt else []) + [1, 2, 3, 5, 8, 12, 30])
    max_radial = rng.choice(([None, None] if virt else []) + [5, 10, 13, 25, 50])
    fill = rng.choice(FILLS)
    min_traps = rng.choice([1, 1, 1, 2, 5, 10])
    max_traps = rng.choice([None, None, None, 10, 20, 40])
    if max_traps is not None and max_traps < min_traps:
        max_traps = min_traps
    if max_traps is not None and max_atoms is not None and int(fill * max_traps) < max_atoms:
        cap = int(fill * max_traps)
        if cap >= 1:
            max_atoms = cap
        else:
            max_traps = None
    opt = rng.choice([None, None, fill, fill / 2, fill * 0.9])
    return dict(cls=cls, dimensions=dim, rydberg_level=rng.choice([50, 60, 70, 100]),
                min_atom_distance=min_dist, max_atom_num=max_atoms, max_radial_distance=max_radial,
                max_layout_filling=fill, optimal_layout_filling=opt, min_layout_traps=min_traps,
                max_layout_traps=max_traps)


def _rot(p, k):
    x, y = p[0], p[1]
    for _ in range(k % 4):
        x, y = -y, x
    return [x, y] + list(p[2:])


def gen_points(rng: random.Random, dev: dict, dim: int, n: int) -> list[list[float]]:
    md = float(dev["min_atom_distance"]) or 1.0
    R = dev["max_radial_distance"] or 20
    delta = rng.choice(DELTAS)
    sp = md + delta
    if sp <= 0:
        sp = md
    strat = rng.choice(["lattice", "lattice", "tri", "pyth", "random", "ring", "line", "grid3"])
    if float(dev["min_atom_distance"]) <= 2e-6 and rng.random() < 0.5:
        strat = "micro"
    pts: list[list[float]] = []
    if strat == "micro":
        # distances that are exactly k * 1e-6 in double arithmetic (sqrt(x*x) = |x|):
        # the two comparisons of the distance check sit exactly on their boundaries
        u = 1e-6
        base = [[0.0, 0.0], [u, 0.0], [0.0, 2 * u], [-u, 0.0], [0.0, -2 * u], [3 * u, 0.0], [0.0, 3 * u],
                [-2 * u, 0.0], [5 * u, 0.0], [0.0, -4 * u]]
        rng.shuffle(base)
        pts = [list(b) for b in base[:n]]
        while len(pts) < n:
            pts.append([len(pts) * 1.0, 1.0])
    elif strat == "lattice":
        w = max(1, int(math.ceil(math.sqrt(n))))
        for k in range(n):
            pts.append([(k % w) * sp, (k // w) * sp])
    elif strat == "tri":
        w = max(1, int(math.ceil(math.sqrt(n))))
        for k in range(n):
            r, c = k // w, k % w
            pts.append([(c + 0.5 * (r % 2)) * sp, r * sp * math.sqrt(3) / 2])
    elif strat == "pyth":
        # consecutive points differ by a (3,4,5)/5 * sp or (5,12,13)/13 * sp step: exact distances
        x = y = 0.0
        tri = rng.choice([(3, 4, 5), (5, 12, 13), (8, 15, 17)])
        for k in range(n):
            pts.append([x, y])
            a, b = (tri[0], tri[1]) if k % 2 == 0 else (tri[1], -tri[0])
            x += a * sp / tri[2]
            y += b * sp / tri[2]
    elif strat == "random":
        for k in range(n):
            pts.append([rng.uniform(-R * 1.05, R * 1.05), rng.uniform(-R * 1.05, R * 1.05)])
    elif strat == "ring":
        eps = rng.choice([0.0, 0.0, 1e-7, -1e-7, 1e-12, -1e-12, 1e-3, -1e-3, 0.5])
        rr = R + eps
        dirs = [(1, 0), (0, 1), (-1, 0), (0, -1), (0.6, 0.8), (-0.8, 0.6), (0.6, -0.8), (-0.6, -0.8),
                (5 / 13, 12 / 13), (-12 / 13, 5 / 13)]
        rng.shuffle(dirs)
        for k in range(n):
            dx, dy = dirs[k % len(dirs)]
            s = 1.0 if k < len(dirs) else 0.5
            pts.append([rr * dx * s, rr * dy * s])
    elif strat == "line":
        for k in range(n):
            pts.append([k * sp, 0.0])
    else:  # grid3: integer grid scaled, good for 3D
        for k in range(n):
            pts.append([(k % 2) * sp, ((k // 2) % 2) * sp])
    # centre roughly so that small registers fit in the disk
    if strat in ("lattice", "tri", "line", "grid3", "pyth") and rng.random() < 0.8:
        cx = sum(p[0] for p in pts) / len(pts)
        cy = sum(p[1] for p in pts) / len(pts)
        if rng.random() < 0.5:
            cx, cy = float(round(cx)), float(round(cy))
        pts = [[p[0] - cx, p[1] - cy] for p in pts]
    if dim == 3:
        zmode = rng.choice(["zero", "layers", "random"])
        for k, p in enumerate(pts):
            if zmode == "zero":
                p.append(0.0)
            elif zmode == "layers":
                p.append((k // 4) * sp)
            else:
                p.append(rng.uniform(-R / 2, R / 2))
        if strat == "grid3":
            for k, p in enumerate(pts):
                p[2] = ((k // 4)) * sp
    # mutations
    if n >= 1 and rng.random() < 0.25:
        # one atom to the radial boundary
        eps = rng.choice([0.0, 1e-7, -1e-7, 1e-12, 2e-6, -2e-6, 1.0])
        k = rng.randrange(len(pts))
        d = rng.choice([(1, 0), (0, -1), (0.6, 0.8), (-0.8, -0.6)])
        pts[k] = [(R + eps) * d[0], (R + eps) * d[1]] + ([0.0] if dim == 3 else [])
    if n >= 2 and rng.random() < 0.2:
        # a near duplicate
        i, j = rng.sample(range(len(pts)), 2)
        off = rng.choice(NEAR)
        pts[j] = list(pts[i])
        pts[j][rng.randrange(dim)] += off
    if rng.random() < 0.2:
        k = rng.randrange(4)
        pts = [_rot(p, k) for p in pts]
    if rng.random() < 0.3:
        rng.shuffle(pts)
    if rng.random() < 0.012:
        pts[rng.randrange(len(pts))][rng.randrange(dim)] = float("nan")
    return [[float(c) for c in p] for p in pts]


def _key(p):
    return tuple(round(c, 6) + 0.0 for c in p)


def gen_layout(rng: random.Random, dev: dict, pts: list[list[float]], dim: int):
    """trap coordinates containing the atoms' (unique after rounding), or None"""
    if any(math.isnan(c) for p in pts for c in p):
        return None
    keys = {_key(p) for p in pts}
    if len(keys) != len(pts):
        return None
    n = len(pts)
    fill = dev["max_layout_filling"]
    need = int(math.ceil(n / fill))
    cands = [need - 1, need, need, need + 1, need + 3, dev["min_layout_traps"] - 1, dev["min_layout_traps"],
             n, n + 1, 2 * n]
    if dev["max_layout_traps"] is not None:
        cands += [dev["max_layout_traps"], dev["max_layout_traps"] + 1]
    total = max(n, min(rng.choice(cands), 45))
    md = float(dev["min_atom_distance"]) or 1.0
    R = dev["max_radial_distance"] or 20
    traps = [list(p) for p in pts]
    mode = rng.choice(["far", "far", "mixed", "close"])
    tries = 0
    k = 0
    while len(traps) < total and tries < 400:
        tries += 1
        if mode == "far" or (mode == "mixed" and rng.random() < 0.7):
            # a lattice of spacing md, shifted away from the atoms
            w = 9
            q = [((k % w) - 4) * (md + 0.25) + 0.125, ((k // w) - 4) * (md + 0.25) + 0.125]
            k += 1
        elif mode == "close":
            base = rng.choice(traps)
            q = [base[0] + rng.choice([md, md - 1e-7, md - 2e-6, md / 2, 1e-6, md + 1e-7]), base[1]]
        else:
            q = [rng.uniform(-R * 1.1, R * 1.1), rng.uniform(-R * 1.1, R * 1.1)]
        if dim == 3:
            q.append(rng.choice([0.0, md, -md]))
        kq = _key(q)
        if kq in keys:
            continue
        if mode == "far" and any(math.dist(q, t) < md for t in traps):
            continue
        keys.add(kq)
        traps.append([float(c) for c in q])
    rng.shuffle(traps)
    return traps


def gen_val(rng: random.Random) -> dict:
    dev = valid_device(rng)
    ma = dev["max_atom_num"]
    sizes = [1, 2, 2, 3, 4, 5, 6, 9]
    if ma is not None:
        sizes = [k for k in sizes if k <= ma] * 2 + [ma, ma, ma + 1, max(1, ma - 1)]
    n = min(rng.choice(sizes), 14)
    dim = rng.choice([2] * 9 + [3]) if dev["dimensions"] == 2 else rng.choice([2, 3, 3])
    pts = gen_points(rng, dev, dim, n)
    names = rng.sample(NAMES, len(pts))
    entry = rng.choice(["validate_register"] * 10 + ["sequence"] * 4 + ["validate_layout"] * 2 + ["mappable"] * 2
                       + ["filling", "malformed"])
    layout = None
    if entry in ("validate_layout", "mappable") or (entry == "filling" and rng.random() < 0.9) or (
            entry != "malformed" and rng.random() < 0.45):
        layout = gen_layout(rng, dev, pts, dim)
        if layout is None and entry in ("validate_layout", "mappable"):
            entry = "validate_register"
    case = dict(kind="val", device=dev, dim=dim, ids=names, coords=pts, layout=layout, entry=entry)
    if entry == "mappable":
        nt = len(layout)
        fill = dev["max_layout_filling"]
        case["n_ids"] = max(1, min(nt, rng.choice([int(nt * fill), int(nt * fill) + 1, 1, nt, max(1, int(nt * fill) - 1)])))
    if entry == "malformed":
        case["what"] = rng.choice(["str_as_register", "register_as_layout", "layout_as_register"])
    return case


# ------------------------------------------------------------------ devices
def gen_dev(rng: random.Random) -> dict:
    d = valid_device(rng)
    d["max_sequence_duration"] = rng.choice([None, None, 1, 10000])
    d["max_runs"] = rng.choice([None, None, 1, 500])
    d["supports_slm_mask"] = rng.choice([False, True])
    d["n_dmm"] = 1 if d["supports_slm_mask"] else rng.choice([0, 1])
    muts = rng.choice([0, 0, 1, 1, 1, 2])
    for _ in range(muts):
        f = rng.choice(["dimensions", "rydberg_level", "min_atom_distance", "max_atom_num",
                        "max_radial_distance", "max_sequence_duration", "max_runs", "min_layout_traps",
                        "max_layout_traps", "max_layout_filling", "optimal_layout_filling", "slm",
                        "traps_order", "traps_atoms", "cls"])
        if f == "dimensions":
            d[f] = rng.choice([0, 1, 4, 2, 3])
        elif f == "rydberg_level":
            d[f] = rng.choice([49, 50, 100, 101, 0, -60, 60.0, None])
        elif f == "min_atom_distance":
            d[f] = rng.choice([0, -0.0, -1, -0.5, 1e-9, None, 3, float("nan")])
        elif f in ("max_atom_num", "max_radial_distance", "max_sequence_duration", "max_runs",
                   "min_layout_traps", "max_layout_traps"):
            d[f] = rng.choice([None, 0, -1, 1, 7, 2.5, 5.0, 10 ** 9])
        elif f == "max_layout_filling":
            d[f] = rng.choice([0.0, -0.1, 1.0, 1.0000001, 1e-3, 0.58, float("nan"), 2.0])
        elif f == "optimal_layout_filling":
            mf = d["max_layout_filling"]
            d[f] = rng.choice([None, 0.0, -0.2, mf, mf * 1.0000001, mf / 3, 1.0, float("nan")])
        elif f == "slm":
            d["supports_slm_mask"] = True
            d["n_dmm"] = rng.choice([0, 0, 1])
        elif f == "traps_order":
            d["min_layout_traps"] = rng.choice([5, 10, 11])
            d["max_layout_traps"] = rng.choice([4, 5, 10, 11])
        elif f == "traps_atoms":
            mt = rng.choice([10, 20, 50, 100])
            fl = rng.choice([0.5, 0.58, 0.29, 0.35, 0.1])
            d["max_layout_traps"] = mt
            d["max_layout_filling"] = fl
            d["optimal_layout_filling"] = None
            d["min_layout_traps"] = 1
            d["max_atom_num"] = int(fl * mt) + rng.choice([-1, 0, 0, 1])
        else:
            d["cls"] = "Device" if d["cls"] == "VirtualDevice" else "VirtualDevice"
    return dict(kind="dev", params=d)


# ------------------------------------------------------------------ max_connectivity
def gen_mc(rng: random.Random) -> dict:
    dev = valid_device(rng)
    ma = dev["max_atom_num"]
    ns = [1, 2, 3, 5, 6, 7, 8, 12, 13, 19, 20, 25, 37, 38, 43] + [rng.randint(7, 64) for _ in range(8)]
    if ma is not None:
        ns = [k for k in ns if k <= ma] * 3 + [ma, ma, ma + 1]
    ns += [0, -1]
    n = rng.choice(ns)
    md = float(dev["min_atom_distance"])
    sp = rng.choice([None, None, None, md, md * (1 + 1e-9), md + 0.5, md + 1e-7, 20.0, md - 0.1,
                     md * (1 - 1e-12), 7.3, math.pi, md + 1e-6, md + 2e-6, 1.0])
    if sp is not None:
        sp = float(sp)
    return dict(kind="mc", device=dev, n=n, spacing=sp)


# ------------------------------------------------------------------ with_automatic_layout
HARD_FILLS = {0.58: [29], 0.29: [29], 0.35: [63], 0.41: [], 0.57: []}


def gen_auto(rng: random.Random) -> dict:
    R = rng.choice([3, 4, 5, 6, 6, 8])
    md = rng.choice([1, 1.0, 1.5, 2, 1.25])
    if rng.random() < 0.3:
        # the mesh step (or twice it): some mesh points are then exactly min_trap_dist apart
        md = (2 * R) / (2 * R - 1) * rng.choice([1, 1, 2])
    fill = rng.choice([0.5, 0.5, 0.58, 0.29, 0.75, 1.0, 0.35, 0.9, 0.25])
    n = rng.choice([1, 2, 3, 4, 5, 6])
    if fill in (0.58, 0.29) and rng.random() < 0.35:
        # the float-hard pair: ceil(n / f) * f < n in double arithmetic
        n, R, md = 29, (6 if fill == 0.58 else 8), 1
    min_traps = rng.choice([1, 1, 1, 5, 12])
    max_traps = rng.choice([None, None, 6, 10, 40])
    if max_traps is not None and max_traps < min_traps:
        max_traps = min_traps
    max_atoms = max(n, rng.choice([n, 10, 30]))
    if max_traps is not None and int(fill * max_traps) < max_atoms:
        max_traps = None
    opt = rng.choice([None, None, fill, fill / 2, fill * 0.8])
    dev = dict(cls="Device", dimensions=2, rydberg_level=60, min_atom_distance=md, max_atom_num=max_atoms,
               max_radial_distance=R, max_layout_filling=fill, optimal_layout_filling=opt,
               min_layout_traps=min_traps, max_layout_traps=max_traps)
    # atoms: a lattice of spacing >= md inside the disk, optionally off the 1e-6 grid
    sp = float(md) + rng.choice([0.0, 0.0, 0.25, 1e-7, 0.5])
    pts = []
    w = int(R / sp) + 1
    cand = [(i * sp, j * sp) for i in range(-w, w + 1) for j in range(-w, w + 1)
            if (i * sp) ** 2 + (j * sp) ** 2 <= (R - 0.01) ** 2]
    cand.sort(key=lambda p: (p[0] ** 2 + p[1] ** 2, p))
    if rng.random() < 0.5:
        rng.shuffle(cand)
    pts = [list(p) for p in cand[:n]]
    if rng.random() < 0.4:
        ox, oy = rng.uniform(-1e-3, 1e-3), rng.uniform(-1e-3, 1e-3)
        pts = [[p[0] + ox, p[1] + oy] for p in pts]
    elif rng.random() < 0.5:
        # atoms on points of the candidate mesh itself (np.linspace(0, 2R, 2R) - R), two steps apart
        num = 2 * R
        step = (2 * R) / (num - 1)
        side = [i * step for i in range(num)]
        side[-1] = float(2 * R)
        side = [v - R for v in side]
        gridpts = [[side[i], side[j]] for i in range(0, num, 2) for j in range(0, num, 2)
                   if side[i] ** 2 + side[j] ** 2 <= (R - 0.5) ** 2]
        rng.shuffle(gridpts)
        if len(gridpts) >= n:
            pts = gridpts[:n]
    if rng.random() < 0.15 and pts:
        # an atom outside the disk or too close: the register itself is not valid
        k = rng.randrange(len(pts))
        pts[k] = [R + 0.5, 0.0] if rng.random() < 0.5 else [pts[0][0] + md / 2, pts[0][1]]
    names = rng.sample(NAMES, len(pts))
    return dict(kind="auto", device=dev, ids=names, coords=[[float(c) for c in p] for p in pts])


# ------------------------------------------------------------------ histories
def gen_hist(rng: random.Random) -> dict:
    """one layout (and a register on it) validated in turn against two or three
    devices that share their name and differ in ONE geometric limit, in both
    orders and through every entry point"""
    virt = rng.random() < 0.5
    md = rng.choice([1, 2, 4, 4.0, 5, 2.5])
    side = rng.choice([3, 4, 5, 6])
    sp = float(md) + rng.choice([0.0, 0.5, 1.0, 1.5, 1e-7])
    grid = [[sp * (i - (side - 1) / 2), sp * (j - (side - 1) / 2)] for i in range(side) for j in range(side)]
    rmax = max(math.hypot(*p) for p in grid)
    R = int(math.ceil(rmax)) + rng.choice([0, 1, 5, 20])
    fill = rng.choice([0.5, 0.5, 0.75, 1.0, 0.25])
    base = dict(cls="VirtualDevice" if virt else "Device", dimensions=rng.choice([2, 2, 3]), rydberg_level=60,
                min_atom_distance=md, max_atom_num=rng.choice(([None] if virt else []) + [6, 20]),
                max_radial_distance=rng.choice(([None] if virt else []) + [R, R]),
                max_layout_filling=fill, optimal_layout_filling=None, min_layout_traps=1,
                max_layout_traps=rng.choice([None, None, side * side, 64]))
    if base["max_layout_traps"] is not None and base["max_atom_num"] is not None \
            and int(fill * base["max_layout_traps"]) < base["max_atom_num"]:
        base["max_layout_traps"] = None

    def variant():
        v = dict(base)
        f = rng.choice(["min_atom_distance", "min_atom_distance", "max_radial_distance", "max_radial_distance",
                        "min_layout_traps", "max_layout_traps", "max_layout_filling", "dimensions"])
        if f == "min_atom_distance":
            v[f] = rng.choice([float(md) + 2, sp + 0.25, sp + 1e-5, sp, max(0.0, float(md) - 1)])
        elif f == "max_radial_distance":
            v[f] = rng.choice([max(1, int(rmax) - 1), max(1, int(rmax // 2)), max(1, int(sp)), R + 7])
        elif f == "min_layout_traps":
            v[f] = rng.choice([side * side, side * side + 1])
            if v["max_layout_traps"] is not None and v["max_layout_traps"] < v[f]:
                v["max_layout_traps"] = None
        elif f == "max_layout_traps":
            v[f] = rng.choice([side * side - 1, side * side])
            if v["max_atom_num"] is not None and int(fill * v[f]) < v["max_atom_num"]:
                v["max_atom_num"] = max(1, int(fill * v[f]))
        elif f == "max_layout_filling":
            v[f] = rng.choice([0.1, 0.05])
            if v["max_layout_traps"] is not None and v["max_atom_num"] is not None \
                    and int(v[f] * v["max_layout_traps"]) < v["max_atom_num"]:
                v["max_layout_traps"] = None
        else:
            v[f] = 3 if base["dimensions"] == 2 else 2
        return v

    devices = [base, variant()]
    if rng.random() < 0.3:
        devices.append(variant())
    # atoms: a few traps, two grid steps apart (so that the atoms themselves fit the stricter devices)
    cand = [p for k, p in enumerate(grid) if (k // side) % 2 == 0 and (k % side) % 2 == 0]
    cand.sort(key=lambda p: (p[0] ** 2 + p[1] ** 2, p))
    n = min(len(cand), rng.choice([1, 2, 2, 3]), max(1, int(fill * len(grid))))
    if rng.random() < 0.3:
        cand = [grid[0], grid[-1]] + [p for p in cand if p not in (grid[0], grid[-1])]
    coords = [list(map(float, p)) for p in cand[:n]]
    names = rng.sample(NAMES, len(coords))
    traps = [list(map(float, p)) for p in grid]
    rng.shuffle(traps)
    entries = ["validate_layout", "validate_register", "sequence", "mappable"]
    order = list(range(len(devices)))
    if rng.random() < 0.5:
        order.reverse()
    if rng.random() < 0.4:
        order = order + [order[0]]
    steps = []
    for d in order:
        e = rng.choice(entries)
        st = dict(dev=d, entry=e)
        if e == "mappable":
            st["n_ids"] = max(1, min(len(traps), rng.choice([1, n, int(fill * len(traps))])))
        steps.append(st)
    return dict(kind="hist", devices=devices, dim=2, ids=names, coords=coords, layout=traps, steps=steps)


def gen_case(rng: random.Random, tier: str) -> dict:
    r = rng.random()
    if r < 0.55:
        return gen_val(rng)
    if r < 0.75:
        return gen_dev(rng)
    if r < 0.88:
        return gen_mc(rng)
    if r < 0.94:
        return gen_hist(rng)
    return gen_auto(rng)
