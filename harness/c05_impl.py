"""C05: runs a case on the real Pulser (sequence -> QutipEmulator ->
get_hamiltonian at sampled times), evaluates the property oracle (the
documented formula, computed from the *schedule*, i.e. from what was
programmed, with plain numpy kron products), and collects the sampler
outputs the Coq model takes as inputs."""
from __future__ import annotations

import itertools
import math
import warnings

import numpy as np

import pulser
from pulser import Pulse, Register, Register3D, Sequence
from pulser.channels import DMM, Microwave, Raman, Rydberg
from pulser.channels.eom import RydbergBeam, RydbergEOM
from pulser.devices import VirtualDevice
from pulser.sampler import sample
from pulser.sequence._schedule import _DMMSchedule
from pulser.waveforms import BlackmanWaveform, ConstantWaveform, RampWaveform

STATE_CODE = {"u": 0, "d": 1, "r": 2, "g": 3, "h": 4, "x": 5}
RANK = ["u", "d", "r", "g", "h", "x"]
BASIS_CODE = {"ground-rydberg": 0, "digital": 1, "XY": 2}
BASIS_STATES = {"ground-rydberg": ["r", "g"], "digital": ["g", "h"], "XY": ["u", "d"]}
# (a, b): Omega/2 (e^{-i phi} |a><b| + h.c.) - delta |b><b|
DRIVE_STATES = {"ground-rydberg": ("g", "r"), "digital": ("h", "g"), "XY": ("d", "u")}
PROTO = {0: "min-delay", 1: "no-delay", 2: "wait-for-all"}
TOL = 1e-9


# ------------------------------------------------------------------ building
def build_device(case):
    bw = case.get("bw")
    kw = dict(clock_period=1, min_duration=1, max_duration=10**7, mod_bandwidth=bw)
    kw_g = dict(kw)
    eom = case.get("eom")
    if eom:
        # EOM needs a modulation bandwidth on the channel itself
        kw_g["mod_bandwidth"] = bw if bw is not None else 40.0
        beams = {"RED": RydbergBeam.RED, "BLUE": RydbergBeam.BLUE}
        kw_g["eom_config"] = RydbergEOM(
            mod_bandwidth=float(eom.get("bw", 40.0)),
            limiting_beam=beams[eom.get("limiting", "RED")],
            max_limiting_amp=30 * 2 * math.pi,
            intermediate_detuning=float(eom.get("delta", 700 * 2 * math.pi)),
            controlled_beams=tuple(beams[b] for b in eom.get("controlled", ["BLUE"])),
            custom_buffer_time=eom.get("buffer"),
        )
    chans = (
        Rydberg.Global(None, None, **kw_g),
        Rydberg.Local(None, None, max_targets=None, **kw),
        Raman.Global(None, None, **kw),
        Raman.Local(None, None, max_targets=None, **kw),
        Microwave.Global(None, None, **kw),
        Microwave.Local(None, None, max_targets=None, **kw),
    )
    ids = ("rydberg_global", "rydberg_local", "raman_global", "raman_local", "mw_global", "mw_local")
    dmm = DMM(bottom_detuning=-1e6, clock_period=1, min_duration=1, max_duration=10**7)
    return VirtualDevice(
        name="C05Device",
        dimensions=3,
        rydberg_level=case["level"],
        interaction_coeff_xy=float(case["c3"]),
        channel_ids=ids,
        channel_objects=chans,
        dmm_objects=(dmm, dmm),
        reusable_channels=True,
        supports_slm_mask=True,
        min_atom_distance=0.5,
        max_atom_num=None,
        max_radial_distance=None,
    )


def build_register(atoms):
    d = {a[0]: tuple(float(x) for x in a[1]) for a in atoms}
    if len(atoms[0][1]) == 3:
        return Register3D(d)
    return Register(d)


def build_wf(w, dur):
    k = w[0]
    if k == "const":
        return ConstantWaveform(dur, w[1])
    if k == "ramp":
        return RampWaveform(dur, w[1], w[2])
    if k == "blackman":
        return BlackmanWaveform(dur, w[1])
    raise ValueError(k)


def build_sequence(case, dev):
    """-> (seq, skipped op indices).  Operations the builder refuses are
    skipped: this property starts from whatever sequence was built."""
    reg = build_register(case["atoms"])
    seq = Sequence(reg, dev)
    skipped = []
    if case["xy"] and case.get("mag") is not None:
        try:
            seq.set_magnetic_field(*[float(x) for x in case["mag"]])
        except Exception:  # noqa: BLE001
            skipped.append(-1)
    for i, op in enumerate(case["ops"]):
        try:
            k = op["op"]
            if k == "declare":
                seq.declare_channel(op["name"], op["id"], initial_target=op.get("target"))
            elif k == "detmap":
                dm = reg.define_detuning_map({q: float(w) for q, w in op["weights"]})
                seq.config_detuning_map(dm, op["dmm"])
            elif k == "slm":
                if case["xy"]:
                    seq.config_slm_mask(op["targets"])
                else:
                    seq.config_slm_mask(op["targets"], op["dmm"])
            elif k == "add":
                p = Pulse(build_wf(op["amp"], op["dur"]), build_wf(op["det"], op["dur"]),
                          float(op["phase"]), post_phase_shift=float(op.get("post", 0.0)))
                seq.add(p, op["ch"], protocol=PROTO[op.get("protocol", 0)])
            elif k == "add_dmm":
                seq.add_dmm_detuning(build_wf(op["det"], op["dur"]), op["ch"])
            elif k == "target":
                seq.target(op["q"], op["ch"])
            elif k == "delay":
                seq.delay(op["dur"], op["ch"])
            elif k == "phase_shift":
                seq.phase_shift(float(op["phi"]), *op["q"], basis=op["basis"])
            elif k == "align":
                seq.align(*op["chs"])
            elif k == "enable_eom":
                seq.enable_eom_mode(op["ch"], amp_on=float(op["amp_on"]), detuning_on=float(op["det_on"]),
                                    optimal_detuning_off=float(op.get("opt_off", 0.0)),
                                    correct_phase_drift=bool(op.get("correct", False)))
            elif k == "add_eom":
                seq.add_eom_pulse(op["ch"], duration=int(op["dur"]), phase=float(op["phase"]),
                                  post_phase_shift=float(op.get("post", 0.0)),
                                  protocol=PROTO[op.get("protocol", 0)],
                                  correct_phase_drift=bool(op.get("correct", False)))
            elif k == "disable_eom":
                seq.disable_eom_mode(op["ch"], correct_phase_drift=bool(op.get("correct", False)))
            else:
                raise ValueError(k)
        except Exception:  # noqa: BLE001
            skipped.append(i)
    return seq, skipped


# ------------------------------------------------------------------ oracle
def site_op(n, d, i, mat):
    out = np.eye(1, dtype=complex)
    for k in range(n):
        out = np.kron(out, mat if k == i else np.eye(d, dtype=complex))
    return out


def ketbra(d, a, b):
    m = np.zeros((d, d), dtype=complex)
    m[a, b] = 1.0
    return m


def programmed(seq):
    """per channel: list of (ti, tf, targets, amp samples, det samples, phase)
    read from the schedule (what was programmed)."""
    out = {}
    for name, sch in seq._schedule.items():
        ch = sch.channel_obj
        slots = []
        for s in sch.slots:
            if isinstance(s.type, Pulse):
                p = s.type
                # a constant zero-amplitude, constant-detuning pulse is the
                # library's "detuned delay": a delay, not a pulse
                is_delay = (
                    isinstance(p.amplitude, ConstantWaveform)
                    and isinstance(p.detuning, ConstantWaveform)
                    and float(p.amplitude.samples.as_array(detach=True)[0]) == 0.0
                )
                slots.append(
                    (int(s.ti), int(s.tf), set(s.targets),
                     np.asarray(p.amplitude.samples.as_array(detach=True), dtype=float),
                     np.asarray(p.detuning.samples.as_array(detach=True), dtype=float),
                     float(p.phase), is_delay)
                )
        # a channel left in EOM mode keeps the detuning at the open block's
        # detuning_off after its last instruction (read from the schedule)
        tail = None
        if sch.eom_blocks and sch.eom_blocks[-1].tf is None:
            tail = (int(sch[-1].tf), float(sch.eom_blocks[-1].detuning_off))
        out[name] = dict(
            basis=ch.basis, glob=ch.addressing == "Global",
            dmm=isinstance(sch, _DMMSchedule), slots=slots, tail=tail,
        )
    return out


def xy_mask_end(prog):
    """end of the first pulse of the global channel starting the earliest"""
    best = None
    for name, c in prog.items():
        if not c["glob"] or c["dmm"]:
            continue
        for (ti, tf, *_rest) in c["slots"]:
            if _rest[-1]:
                continue  # detuned delay
            if best is None or ti < best[0]:
                best = (ti, tf)
            break
    return best[1] if best else 0


def doc_states(case, prog):
    used = set()
    for c in prog.values():
        if any(np.any(s[3] != 0) or np.any(s[4] != 0) for s in c["slots"]):
            used.add(c["basis"])
        if c.get("tail") and c["tail"][1] != 0 and c["glob"]:
            used.add(c["basis"])
    if not used:
        st = set(BASIS_STATES["XY" if case["xy"] else "ground-rydberg"])
    else:
        st = set().union(*(BASIS_STATES[b] for b in used))
    return [s for s in RANK if s in st], used


def weights_of(case, name, ids, slm_name):
    """programmed detuning-map weight of each atom for DMM channel `name`"""
    if name == slm_name:
        tg = set(case_slm(case)["targets"])
        return {q: (1.0 if q in tg else 0.0) for q in ids}
    # name is "dmm_k" or "dmm_k_j": the j-th configuration of that dmm id
    parts = name.split("_")
    dmm_id = "_".join(parts[:2])
    nth = int(parts[2]) if len(parts) > 2 else 0
    confs = []
    for op in case["ops"]:
        if op["op"] == "detmap" and op["dmm"] == dmm_id and not op.get("_skipped"):
            confs.append(("detmap", op))
        if op["op"] == "slm" and not case["xy"] and op.get("dmm") == dmm_id and not op.get("_skipped"):
            confs.append(("slm", op))
    kind, op = confs[nth]
    if kind == "slm":
        tg = set(op["targets"])
        return {q: (1.0 if q in tg else 0.0) for q in ids}
    w = {q: 0.0 for q in ids}
    for q, x in op["weights"]:
        w[q] = w.get(q, 0.0) + float(x)
    return w


def case_slm(case):
    for op in case["ops"]:
        if op["op"] == "slm" and not op.get("_skipped"):
            return op
    return None


def geometry(coords, i, j):
    a = np.zeros(3)
    b = np.zeros(3)
    a[: len(coords[i])] = coords[i]
    b[: len(coords[j])] = coords[j]
    return a - b


def doc_hamiltonian(case, prog, states, ids, coords, t, c6, c3, mag, mask, mask_end,
                    weights, variant=()):
    """The documented formula at integer time t (ns), register tensor order,
    state order `states`.  variant: set of known deviations to emulate, used
    only to *classify* a mismatch ("phase-sum", "mask-late")."""
    n, d = len(ids), len(states)
    sidx = {s: k for k, s in enumerate(states)}
    H = np.zeros((d**n, d**n), dtype=complex)
    # ---- drive
    contribs = []  # (key, atom index list, amp, det per atom, phase)
    for name, c in prog.items():
        a, b = DRIVE_STATES[c["basis"]]
        for (ti, tf, targets, amp, det, phase, _isd) in c["slots"]:
            if not (ti <= t < tf):
                continue
            om, de = float(amp[t - ti]), float(det[t - ti])
            tg = ids if c["glob"] else [q for q in ids if q in targets]
            for q in tg:
                if c["basis"] == "XY" and q in mask and t < mask_end:
                    continue  # masked atoms do not see pulses while the mask is on
                w = weights[name][q] if c["dmm"] else 1.0
                contribs.append((name, c, q, om, de * w, phase))
        if c.get("tail") and c["glob"] and not c["dmm"] and t >= c["tail"][0]:
            for q in ids:
                contribs.append((name, c, q, 0.0, c["tail"][1], 0.0))
    if "phase-sum" in variant:
        raise RuntimeError("use doc_variant_phase_sum")
    for (name, c, q, om, de, phase) in contribs:
        a, b = DRIVE_STATES[c["basis"]]
        if a not in sidx or b not in sidx:
            if om != 0 or de != 0:
                raise RuntimeError("driven state missing from the basis")
            continue
        i = ids.index(q)
        A = site_op(n, d, i, ketbra(d, sidx[a], sidx[b]))
        H += 0.5 * om * (np.exp(-1j * phase) * A + np.exp(1j * phase) * A.conj().T)
        H -= de * site_op(n, d, i, ketbra(d, sidx[b], sidx[b]))
    # ---- interaction
    H += doc_interaction(case, states, ids, coords, t, c6, c3, mag, mask, mask_end, variant)
    return H


def doc_interaction(case, states, ids, coords, t, c6, c3, mag, mask, mask_end, variant=()):
    n, d = len(ids), len(states)
    sidx = {s: k for k, s in enumerate(states)}
    H = np.zeros((d**n, d**n), dtype=complex)
    if case["xy"]:
        on = t < mask_end or ("mask-late" in variant and t <= mask_end and mask_end > 0)
        for i, j in itertools.combinations(range(n), 2):
            if on and (ids[i] in mask or ids[j] in mask):
                continue  # masked atoms are decoupled while the mask is on
            rv = geometry(coords, i, j)
            R = float(np.linalg.norm(rv))
            cos = float(np.dot(rv, mag) / (R * np.linalg.norm(mag)))
            U = c3 * (1 - 3 * cos**2) / R**3
            ud = site_op(n, d, i, ketbra(d, sidx["u"], sidx["d"])) @ site_op(
                n, d, j, ketbra(d, sidx["d"], sidx["u"]))
            H += U * (ud + ud.conj().T)
    elif "r" in sidx:
        for i, j in itertools.combinations(range(n), 2):
            R = float(np.linalg.norm(geometry(coords, i, j)))
            U = c6 / R**6
            nn = site_op(n, d, i, ketbra(d, sidx["r"], sidx["r"])) @ site_op(
                n, d, j, ketbra(d, sidx["r"], sidx["r"]))
            H += U * nn
    return H


def phase_sum_hamiltonian(case, samp_ext, states, ids, coords, t, c6, c3, mag, mask,
                          mask_end, weights, emu_ids, variant):
    """What one gets when the phases of all channels feeding one
    (addressing, basis, atom) entry are ADDED (the known deviation): used only
    to recognise that deviation.  Uses the sampler's phase arrays."""
    n, d = len(ids), len(states)
    sidx = {s: k for k, s in enumerate(states)}
    groups = {}
    for name, cs in samp_ext.channel_samples.items():
        ch = samp_ext._ch_objs[name]
        basis = ch.basis
        is_dmm = hasattr(cs, "detuning_map")
        amp = np.asarray(cs.amp.as_array(detach=True))
        det = np.asarray(cs.det.as_array(detach=True))
        ph = np.asarray(cs.phase.as_array(detach=True))
        if t >= len(amp):
            continue
        if ch.addressing == "Global" and not is_dmm:
            start = mask_end if basis == "XY" else 0
            if t >= start:
                g = groups.setdefault(("G", basis), [0.0, 0.0, 0.0, 0])
                g[0] += amp[t]; g[1] += det[t]; g[2] += ph[t]; g[3] += 1
            else:
                for q in ids:
                    if q in mask:
                        continue
                    g = groups.setdefault(("L", basis, q), [0.0, 0.0, 0.0, 0])
                    g[0] += amp[t]; g[1] += det[t]; g[2] += ph[t]; g[3] += 1
        else:
            for s in cs.slots:
                tg = ids if ch.addressing == "Global" else [q for q in ids if q in s.targets]
                for q in tg:
                    ti = s.ti
                    if basis == "XY" and q in mask:
                        ti = max(ti, mask_end)
                    if ti <= t < s.tf:
                        w = weights[name][q] if is_dmm else 1.0
                        g = groups.setdefault(("L", basis, q), [0.0, 0.0, 0.0, 0])
                        g[0] += amp[t]; g[1] += det[t] * w; g[2] += ph[t]; g[3] += 1
    H = np.zeros((d**n, d**n), dtype=complex)
    shared = False
    for key, (om, de, ph, cnt) in groups.items():
        if cnt > 1:
            shared = True
        a, b = DRIVE_STATES[key[1]]
        if a not in sidx or b not in sidx:
            continue
        for q in (ids if key[0] == "G" else [key[2]]):
            i = ids.index(q)
            A = site_op(n, d, i, ketbra(d, sidx[a], sidx[b]))
            H += 0.5 * om * (np.exp(-1j * ph) * A + np.exp(1j * ph) * A.conj().T)
            H -= de * site_op(n, d, i, ketbra(d, sidx[b], sidx[b]))
    H += doc_interaction(case, states, ids, coords, t, c6, c3, mag, mask, mask_end, variant)
    return H, shared


def hamming_kinds(D, n, d, tol):
    kinds = set()
    idx = np.argwhere(np.abs(D) > tol)
    for (I, J) in idx[:2000]:
        a, b, h = int(I), int(J), 0
        for _ in range(n):
            if a % d != b % d:
                h += 1
            a //= d
            b //= d
        kinds.add({0: "diagonal", 1: "single-flip", 2: "double-flip"}.get(h, "multi-flip"))
    return "+".join(sorted(kinds))


# ------------------------------------------------------------------ probes
def resolve_probes(case, m, times_ns, mask_end, edges, ch_ends=()):
    ks = []
    for pr in case["probes"]:
        kind = pr[0]
        if kind == "frac":
            k = int(pr[1] * (m - 1))
        elif kind == "mask":
            if mask_end <= 0:
                continue
            target = mask_end + pr[1]
            k = int(np.argmin(np.abs(np.asarray(times_ns) - target)))
        elif kind == "edge":
            if not edges:
                continue
            target = edges[pr[1] % len(edges)] + pr[2]
            k = int(np.argmin(np.abs(np.asarray(times_ns) - target)))
        elif kind == "tail":
            # between the end of the shortest channel and the end of the sequence
            if not ch_ends:
                continue
            lo, hi = min(ch_ends), times_ns[-1]
            target = lo + pr[1] * (hi - lo)
            k = int(np.argmin(np.abs(np.asarray(times_ns) - target)))
        else:
            raise ValueError(kind)
        k = max(0, min(m - 1, k))
        if k not in ks:
            ks.append(k)
    return ks


# ------------------------------------------------------------------ runner
def run_case(case, Violation):
    """-> (run dict, [Violation])"""
    viols = []
    run = dict(status="ok")

    def bad(sig, what, detail=None):
        viols.append(Violation(sig, what, case, detail))

    with warnings.catch_warnings():
        warnings.simplefilter("ignore")
        dev = build_device(case)
        # mark skipped ops so that the oracle knows what was programmed
        for op in case["ops"]:
            op.pop("_skipped", None)
        seq, skipped = build_sequence(case, dev)
        for i in skipped:
            if i >= 0:
                case["ops"][i]["_skipped"] = True
        run["skipped"] = skipped
        if not seq._schedule or all(seq._schedule[x][-1].tf == 0 for x in seq.declared_channels):
            run["status"] = "empty"
            for op in case["ops"]:
                op.pop("_skipped", None)
            return run, viols

        if case.get("extra_first"):
            emu_atoms = case.get("extra_atoms", []) + case["atoms"]
        else:
            emu_atoms = case["atoms"] + case.get("extra_atoms", [])
        emu_reg = build_register(emu_atoms)
        ids = [a[0] for a in emu_atoms]
        coords = [tuple(float(x) for x in a[1]) for a in emu_atoms]
        n = len(ids)
        rate = float(case["rate"])
        direct = bool(case.get("direct")) or bool(case.get("extra_atoms"))
        if direct:
            samp = sample(seq)
        else:
            samp = sample(seq, modulation=False, extended_duration=seq.get_duration())
        prog = programmed(seq)
        tot = int(samp.max_duration)
        mask = set(samp._slm_mask.targets)
        impl_mask_end = int(samp._slm_mask.end)
        # the oracle's own mask end (XY only: in Ising the mask is a DMM pulse)
        slm = case_slm(case)
        o_mask = set(slm["targets"]) if (slm and case["xy"]) else set()
        o_mask_end = xy_mask_end(prog) if o_mask else 0
        if not o_mask:
            o_mask_end = 0
        slm_name = getattr(seq, "_slm_mask_dmm", None) if not case["xy"] else None

        # ---------- emulator
        from pulser_simulation import QutipEmulator

        run["raises"] = False
        try:
            if direct:
                emu = QutipEmulator(samp, emu_reg, dev, sampling_rate=rate)
            else:
                emu = QutipEmulator.from_sequence(seq, sampling_rate=rate)
        except Exception as e:  # noqa: BLE001
            empty_xy_global = bool(o_mask) and any(
                c["glob"] and not c["dmm"] and c["basis"] == "XY" and not c["slots"]
                for c in prog.values()
            )
            small = int(tot * rate) < 4
            if small and isinstance(e, ValueError):
                run["status"] = "too-few-samples"
                for op in case["ops"]:
                    op.pop("_skipped", None)
                return run, viols
            sig = "emulator-construction:" + type(e).__name__
            if isinstance(e, IndexError) and empty_xy_global:
                sig += ":xy-mask-with-idle-global-channel"
            bad(sig, f"QutipEmulator could not be built for a valid sequence: {e!r}")
            run["status"] = "raises"
            run["raises"] = True
            run["exc"] = type(e).__name__
            emu = None

        # ---------- configuration history on this one emulator
        # (applied further down, once the oracle's ingredients exist)
        # ---------- inputs of the Coq model (sampler outputs)
        chans = []
        for name, cs in samp.channel_samples.items():
            ch = samp._ch_objs[name]
            amp = np.asarray(cs.amp.as_array(detach=True), dtype=float)
            det = np.asarray(cs.det.as_array(detach=True), dtype=float)
            ph = np.asarray(cs.phase.as_array(detach=True), dtype=float)
            is_dmm = hasattr(cs, "detuning_map")
            seq_ids = [a[0] for a in case["atoms"]]
            if is_dmm:
                # weights as programmed in the case (not read back from Pulser)
                wmap = weights_of(case, name, ids, slm_name)
                w = [float(wmap.get(q, 0.0)) for q in ids]
            else:
                w = []
            chans.append(dict(
                name=name, glob=ch.addressing == "Global", dmm=is_dmm,
                basis=BASIS_CODE[ch.basis],
                nonempty=bool(np.count_nonzero(amp) + np.count_nonzero(det) != 0),
                dur=int(len(amp)),
                slots=[(int(s.ti), int(s.tf), sorted(ids.index(q) for q in s.targets)) for s in cs.slots],
                w=w,
                eom=[(None if b.tf is None else int(b.tf), float(b.detuning_off)) for b in cs.eom_blocks],
                last=(math.cos(ph[-1]), math.sin(ph[-1])) if len(ph) else (1.0, 0.0),
                amp=amp, det=det, ph=ph,
            ))
        run["chans"] = chans
        run["n"] = n
        run["coords"] = [tuple(list(c) + [0.0] * (3 - len(c))) for c in coords]
        run["c6"] = float(dev.interaction_coeff)
        run["c3"] = float(dev.interaction_coeff_xy)
        mag = np.asarray(samp._magnetic_field if samp._magnetic_field is not None else [0.0, 0.0, 30.0], dtype=float)
        run["mag"] = tuple(float(x) for x in mag)
        run["mask"] = sorted(ids.index(q) for q in mask)
        run["mask_end"] = impl_mask_end
        run["tot"] = tot
        run["rate"] = rate
        run["times"] = []
        if emu is None:
            for op in case["ops"]:
                op.pop("_skipped", None)
            return run, viols

        # ---------- decisions
        basis_states = list(emu.basis.keys())
        run["dim"] = int(emu.dim)
        run["basis"] = [STATE_CODE[s] for s in basis_states]
        st_times = np.asarray(emu.sampling_times, dtype=float)
        times_ns = [int(round(x * 1000)) for x in st_times]
        run["m"] = len(times_ns)
        states, used = doc_states(case, prog)
        if basis_states != states:
            bad("basis-order", f"emulator basis {basis_states} != documented state ordering {states}")
        for s, vec in emu.basis.items():
            v = np.asarray(vec.full()).ravel()
            if not (len(v) == len(basis_states) and v[basis_states.index(s)] == 1 and np.count_nonzero(v) == 1):
                bad("basis-vectors", f"basis vector of state {s} is not the unit vector of its rank")
        if any(abs(x * 1000 - t) > 1e-6 for x, t in zip(st_times, times_ns)) or \
                any(b <= a for a, b in zip(times_ns, times_ns[1:])) or times_ns[0] != 0 or times_ns[-1] != tot:
            bad("sampling-times", f"sampling times are not increasing integer ns from 0 to {tot}: {times_ns[:5]}..{times_ns[-3:]}")
        if int(emu._tot_duration) != tot:
            bad("total-duration", f"emulator duration {emu._tot_duration} != samples duration {tot}")

        # ---------- oracle at the probed sampled times
        seq_ids = [a[0] for a in case["atoms"]]
        weights = {}
        for name, c in prog.items():
            if c["dmm"]:
                weights[name] = weights_of(case, name, ids, slm_name)
        edges = sorted({x for c in prog.values() for s in c["slots"] for x in (s[0], s[1])})
        ch_ends = [int(sch[-1].tf) for sch in seq._schedule.values()]
        ks = resolve_probes(case, len(times_ns), times_ns, o_mask_end or impl_mask_end, edges, ch_ends)
        samp_ext = emu.samples_obj
        c6, c3 = run["c6"], run["c3"]

        # ---------- configuration history on this one emulator.  Whether the
        # configuration reached is "clean" (no atom badly prepared, nothing
        # drawn at random) is decided from the CALLS, not read back from the
        # emulator: set replaces, reset empties, add only adds new noise types.
        run["history"] = []
        if case.get("history") and states == basis_states:
            from pulser_simulation import SimConfig

            np.random.seed(int(case.get("np_seed", 0)) % (2**32))
            exp_types, exp_eta = set(), 0.0
            n_steps = len(case["history"])
            for si, (how, kw) in enumerate(case["history"]):
                try:
                    if how == "reset":
                        emu.reset_config()
                        exp_types, exp_eta = set(), 0.0
                    else:
                        kw2 = dict(kw)
                        kw2["noise"] = tuple(kw2.get("noise", ()))
                        cfg = SimConfig(**kw2)
                        (emu.set_config if how == "set" else emu.add_config)(cfg)
                        new_types = set(kw2["noise"])
                        if how == "set":
                            exp_types = new_types
                            exp_eta = float(kw.get("eta", 0.0)) if "SPAM" in new_types else 0.0
                        else:
                            if "SPAM" in new_types and "SPAM" not in exp_types:
                                exp_eta = float(kw.get("eta", 0.0))
                            exp_types = exp_types | new_types
                    run["history"].append("ok")
                except NotImplementedError:
                    run["history"].append("unsupported")
                except Exception as e:  # noqa: BLE001
                    run["history"].append(type(e).__name__)
                    bad("config-history:" + type(e).__name__,
                        f"{how}_config({kw}) raised {e!r} on a valid emulator")
                clean = exp_types <= {"SPAM", "dephasing"} and not ("SPAM" in exp_types and exp_eta > 0)
                if clean and si < n_steps - 1 and ks:
                    # intermediate clean configuration: the Hamiltonian must be
                    # the documented one here too (oracle only)
                    for k in ks[:2]:
                        t = times_ns[k]
                        Himp = np.asarray(emu.get_hamiltonian(t).full(), dtype=complex)
                        Hdoc = doc_hamiltonian(case, prog, states, ids, coords, t, c6, c3, mag,
                                               o_mask, o_mask_end, weights)
                        tol = TOL * (1.0 + float(np.max(np.abs(Himp))))
                        if Himp.shape != Hdoc.shape or np.max(np.abs(Himp - Hdoc)) > tol:
                            Hnl = np.asarray(emu.get_hamiltonian(t, noiseless=True).full(), dtype=complex)
                            if Hnl.shape == Himp.shape and np.max(np.abs(Hnl - Himp)) <= tol:
                                continue  # same as the fresh emulator: a known finding's case, judged at the end
                            bad("config-history:hamiltonian-not-restored-mid-history",
                                f"after {case['history'][: si + 1]} H(t={t}) is not the documented Hamiltonian "
                                "although the configuration has no badly prepared atom and no random noise",
                                dict(t=t, step=si))
            if not clean:
                run["status"] = "history-not-clean"  # generator never ends on a noisy step
        if states == basis_states and run["status"] != "history-not-clean":
            for k in ks:
                t = times_ns[k]
                Himp = np.asarray(emu.get_hamiltonian(t).full(), dtype=complex)
                scale = 1.0 + float(np.max(np.abs(Himp))) if Himp.size else 1.0
                tol = TOL * scale
                nz = [(int(i), int(j), float(Himp[i, j].real), float(Himp[i, j].imag))
                      for i, j in np.argwhere(Himp != 0)]
                run["times"].append(dict(k=int(k), t=int(t), H=nz))
                if Himp.shape != (len(states) ** n,) * 2:
                    bad("shape", f"Hamiltonian shape {Himp.shape} for {n} atoms, {len(states)} levels")
                    continue
                if not np.all(np.isfinite(Himp)):
                    bad("non-finite", f"non-finite entries at t={t}")
                    continue
                if np.max(np.abs(Himp - Himp.conj().T)) > tol:
                    bad("not-hermitian", f"H(t={t}) is not Hermitian")
                Hdoc = doc_hamiltonian(case, prog, states, ids, coords, t, c6, c3, mag,
                                       o_mask, o_mask_end, weights)
                if case.get("history"):
                    # the noiseless view of the same emulator must agree as well
                    Hnl = np.asarray(emu.get_hamiltonian(t, noiseless=True).full(), dtype=complex)
                    if Hnl.shape != Himp.shape or np.max(np.abs(Hnl - Himp)) > tol:
                        bad("config-history:differs-from-noiseless-hamiltonian",
                            f"after {case['history']} H(t={t}) differs from get_hamiltonian(noiseless=True) "
                            "although no atom is badly prepared and no noise is drawn", dict(t=t))
                if np.max(np.abs(Himp - Hdoc)) <= tol:
                    continue
                # classify
                sig = None
                for variant in (("mask-late",), ("phase-sum",), ("phase-sum", "mask-late")):
                    if "mask-late" in variant and not (o_mask and t == o_mask_end):
                        continue
                    if "phase-sum" in variant:
                        Hv, shared = phase_sum_hamiltonian(
                            case, samp_ext, states, ids, coords, t, c6, c3, mag, o_mask,
                            o_mask_end, weights, ids, variant)
                        if not shared:
                            continue
                    else:
                        Hv = doc_hamiltonian(case, prog, states, ids, coords, t, c6, c3, mag,
                                             o_mask, o_mask_end, weights, variant)
                    if np.max(np.abs(Himp - Hv)) <= tol:
                        sig = {
                            ("mask-late",): "xy-mask:interaction-still-masked-at-mask-end",
                            ("phase-sum",): "phase:channels-sharing-a-basis-have-phases-added",
                            ("phase-sum", "mask-late"): "phase:channels-sharing-a-basis-have-phases-added",
                        }[variant]
                        if variant == ("phase-sum", "mask-late"):
                            bad("xy-mask:interaction-still-masked-at-mask-end",
                                f"t={t}: XY interaction of masked atoms still off at the mask end", dict(t=t))
                        break
                if sig is None:
                    kinds = hamming_kinds(Himp - Hdoc, n, len(states), tol)
                    sig = "hamiltonian-mismatch:" + kinds
                bad(sig, f"H(t={t} ns) differs from the documented formula (max |diff| = "
                         f"{np.max(np.abs(Himp - Hdoc)):.3e}, tol {tol:.1e})",
                    dict(t=t, k=k, max_diff=float(np.max(np.abs(Himp - Hdoc)))))
        # time beyond the end must be refused, not extrapolated
        for op in case["ops"]:
            op.pop("_skipped", None)
    return run, viols
