"""C08: implementation runner with the property oracle, and the Coq emitter."""
from __future__ import annotations

import warnings

import numpy as np

from pulser import Register, Sequence
from pulser.parametrized import Parametrized

from harness import common, seqimpl
from harness.c08_lib import (CALLS, World, canon_args, classify_build_failure, is_ref,
                             seqimpl_F)
from harness.framework import Violation
from harness.seqimpl import err_code


# ------------------------------------------------------------------ observation
def enc_stored_arg(W: World, x):
    """argument of a stored call, Parametrized objects as heap references"""
    if isinstance(x, Parametrized):
        return ("R", W.objid.get(id(x), 9997))
    if isinstance(x, (list, tuple)) and any(isinstance(y, Parametrized) for y in x):
        return ("O", 90, [enc_stored_arg(W, y) for y in x])
    return W.enc.value(x)


def enc_stored_call(W: World, call):
    return [CALLS.get(call.name, 99), [enc_stored_arg(W, a) for a in canon_args(call.name, call.args, call.kwargs)]]


def enc_received(W: World, rec):
    name, a, k = rec
    return [CALLS.get(name, 99), [W.enc.value(x) for x in canon_args(name, a, k)]]


def tmpl_observe(W: World):
    seq = W.seq
    cd = seqimpl.Coder(W.case)
    with warnings.catch_warnings():
        warnings.simplefilter("ignore")
        return dict(
            calls=[enc_stored_call(W, c) for c in seq._calls[1:]],
            tobuild=[enc_stored_call(W, c) for c in seq._to_build_calls],
            building=bool(seq._building),
            vars=sorted(seq._variables),
            snap=norm(seqimpl.snap_full(cd, seq)),
            measured=str(getattr(seq, "_measurement", None)) + "|" + str(seq._param_measurement),
            # the rest of the instance state, in full
            qids=sorted(str(q) for q in seq._qids),
            register=[type(seq._register).__name__, [str(q) for q in seq._register.qubit_ids],
                      seq._register is W.reg],
            device=seq._device is W.dev,
            basis_ref={b: sorted(str(q) for q in d) for b, d in seq._basis_ref.items()},
            channels=[[n, cs.channel_id] for n, cs in seq._schedule.items()],
            flags=norm([bool(seq._in_xy), bool(seq._in_ising), bool(seq._empty_sequence),
                        sorted(str(q) for q in seq._slm_mask_targets), str(seq._slm_mask_dmm),
                        None if seq._mag_field is None else [float(x) for x in seq._mag_field]]),
            init_call=[seq._calls[0].name, len(seq._calls[0].args), sorted(seq._calls[0].kwargs),
                       seq._calls[0].kwargs.get("register") is W.reg],
            var_decls=[[n, v.dtype.__name__, v.size] for n, v in seq._variables.items()],
            attrs=sorted(k for k in vars(seq) if k not in ("_received", "_rec_depth")),
        )


def trap_of(layout, coords):
    lc = np.asarray(layout.coords, dtype=float)
    for i, c in enumerate(lc):
        if np.allclose(c, np.asarray(coords, dtype=float)[: len(c)]):
            return i
    return -1


def norm(x):
    """floats by bit pattern, so that NaN compares equal to itself"""
    if isinstance(x, float):
        return "nan" if x != x else x.hex()
    if isinstance(x, (list, tuple)):
        return [norm(y) for y in x]
    if isinstance(x, dict):
        return {k: norm(v) for k, v in x.items()}
    return x


def canon_snap(s):
    chans, refs, flags = s
    return [sorted(chans, key=lambda c: c[0]), sorted(refs, key=lambda r: r[0]), flags]


def has_nested(case):
    for op in case["ops"]:
        q = op.get("qubits")
        if isinstance(q, list) and any(is_ref(x) for x in q):
            return True
    return False


def run_case(case):
    """-> (run, violations)"""
    viols = []

    def bad(sig, what, detail=None):
        viols.append(Violation(sig, what, case, detail))

    W = World(case)
    seq = W.seq
    cd = seqimpl.Coder(case)
    touts = []
    texc = {}
    with warnings.catch_warnings():
        warnings.simplefilter("ignore")
        for i, op in enumerate(case["ops"]):
            try:
                W.exec_op(seq, i, op)
                touts.append(0)
            except Exception as e:  # noqa: BLE001
                touts.append(err_code(e))
                texc[i] = e
        t0 = tmpl_observe(W)
        param_ops = [i for i, op in enumerate(case["ops"]) if _op_has_ref(op)]
        first_param = min(param_ops) if param_ops else len(case["ops"])
        failed_live = any(touts[i] != 0 for i in range(first_param))
        otable: dict = {}
        builds = []
        probed = False
        persist: dict = {}
        # ---------------- MappableRegister.find_indices, the source of index values
        finds = []
        if case.get("mappable"):
            dec = case["mappable"]["declared"]
            for ids in case.get("find") or []:
                want = [dec.index(x) for x in ids] if set(ids) <= set(dec) else None
                try:
                    got = [int(j) for j in W.reg.find_indices(ids)]
                    finds.append([0, got])
                    if want is None:
                        bad("find-indices:accepts-undeclared-id", f"find_indices({ids}) = {got}")
                    elif got != want:
                        bad("find-indices:wrong-positions", f"find_indices({ids}) = {got}, declared order gives {want}")
                except Exception as e:  # noqa: BLE001
                    finds.append([err_code(e), []])
                    if want is not None:
                        bad("find-indices:raises-on-declared-ids",
                            f"find_indices({ids}) raised {type(e).__name__}: {e}; declared ids are {dec}")
        for bi, b in enumerate(case["builds"]):
            env = {n: v for n, v in b["env"]}
            qubits = {q: t for q, t in b["qubits"]} if b["qubits"] is not None else None
            n_created = len(W.created)
            built, out, origin, exc = None, 0, "", None
            # array variables are passed as ONE numpy array per variable that is
            # updated in place between builds (what an optimisation loop does)
            env_call = dict(env)
            for vd in case["vars"]:
                n, v = vd["name"], env.get(vd["name"])
                if vd["size"] is None or not isinstance(v, list) or not v:
                    continue
                ty = int if vd["dtype"] == "int" else float
                if not all(type(x) is ty for x in v):
                    continue
                if n in persist and persist[n].shape == (len(v),):
                    persist[n][...] = v
                else:
                    persist[n] = np.array(v, dtype=ty)
                env_call[n] = persist[n]
            try:
                built = seq.build(qubits=qubits, **env_call)
            except Exception as e:  # noqa: BLE001
                out, origin, exc = err_code(e), classify_build_failure(e), e
                built = W.created[-1] if len(W.created) > n_created else None
            received = list(built._received) if isinstance(built, W.RecSeq) else []
            n_ok = len(received) - (1 if (exc is not None and origin in ("call", "replay")) else 0)
            n_ok = max(n_ok, 0)
            obs = dict(out=out, origin=origin, calls=[enc_received(W, r) for r in received[:n_ok]], reg=None,
                       n_replayed=len(seq._calls) - 1)
            if exc is None and case.get("mappable") and qubits:
                reg = built.register
                obs["reg"] = [[W.strs.code(q), trap_of(W.layout, reg.qubits[q])] for q in reg.qubit_ids]
            if exc is not None and origin in ("call", "replay"):
                extra = 1 if (origin == "call" and case.get("mappable") and qubits) else 0
                obs["fail"] = [n_ok + extra, out]
            if exc is not None and origin == "setreg":
                obs["fail"] = [obs["n_replayed"], out]
            builds.append(obs)

            # ---------------- template untouched
            t1 = tmpl_observe(W)
            if t1 != t0:
                diff = [k for k in t0 if t0[k] != t1[k]]
                bad("template-altered:" + ",".join(diff), f"build #{bi} changed the template: {diff}")
                t0 = t1

            # ---------------- direct construction with independently evaluated values
            ev, user0 = W.evaluator(_env_for_eval(case, env), otable)
            # fill the oracle tables for every expression, also those the
            # reference construction does not reach
            for nid in range(len(case["heap"])):
                try:
                    ev(nid)
                except Exception:  # noqa: BLE001
                    pass

            def user(nid, _u=user0):
                try:
                    return _u(nid)
                except Exception as e:  # noqa: BLE001
                    raise _EvalError(repr(e))

            direct, dfail = _direct(W, case, touts, qubits, user, env)
            obs["direct_ok"] = direct is not None
            if not probed and (direct is not None or (dfail is not None and dfail[0] in ("call", "eval"))):
                # a program the direct construction accepts is a valid template:
                # calls the PARAMETRIZED template refused are tried directly
                probed = True
                for i, what in _probe_refused(W, case, touts, texc, first_param, qubits, user, env):
                    bad(("template-raises" + what[0]) if what[0] else
                        f"template-raises:{case['ops'][i]['op']}:{type(texc[i]).__name__}",
                        f"call #{i} {case['ops'][i]['op']} raised {type(texc[i]).__name__}: {texc[i]} when the "
                        f"parametrized template was written, but is accepted when issued directly with the values",
                        dict(op=i))
            if direct is not None:
                if exc is not None:
                    sig = f"build-raises:{origin}:{type(exc).__name__}"
                    if origin == "setreg" and failed_live:
                        # _set_register reads the template's own schedule, which a
                        # call that raised may have left half-modified (C09)
                        sig = f"build-raises:setreg-after-failed-template-call:{type(exc).__name__}"
                    if has_nested(case) and "Unknown variable" in str(exc):
                        sig = "build-raises:variable-inside-list-not-built"
                    bad(sig, f"build #{bi} raised {type(exc).__name__}: {exc} but issuing the calls directly succeeds",
                        dict(build=bi))
                else:
                    cdb = seqimpl.Coder(case)
                    sb = norm(seqimpl.snap_full(cdb, built))
                    sd = norm(seqimpl.snap_full(seqimpl.Coder(case), direct))
                    # the number of log entries is not part of the sequence
                    sb[2], sd[2] = sb[2][:4], sd[2][:4]
                    if sb != sd:
                        if canon_snap(sb) == canon_snap(sd):
                            bad("build-differs:channel-order-only",
                                f"build #{bi}: same content but channels in another order "
                                f"{list(built._schedule)} vs {list(direct._schedule)}", dict(build=bi))
                        else:
                            bad("build-differs:" + _first_diff(sb, sd),
                                f"build #{bi} differs from direct construction", dict(build=bi, built=sb, direct=sd))
                    if case.get("mappable") and qubits:
                        want = [q for q in case["mappable"]["declared"] if q in qubits]
                        got = list(built.register.qubit_ids)
                        if got != want:
                            bad("mappable:qubit-order", f"register ids {got} != declared order {want}")
                        for q in want:
                            if trap_of(W.layout, built.register.qubits[q]) != qubits[q]:
                                bad("mappable:wrong-trap", f"qubit {q} not on trap {qubits[q]}")
                    rq = set(built.register.qubit_ids)
                    if set(built._qids) != rq or set(built._qids) != set(direct._qids):
                        bad("build-differs:qubit-set",
                            f"build #{bi}: the built sequence's qubit ids {sorted(map(str, built._qids))} are not "
                            f"those of its register {sorted(map(str, rq))}", dict(build=bi))
                    if built is seq or built._schedule is seq._schedule:
                        bad("build-shares-state", "build returned the template's own state")
            elif exc is None and dfail is not None and dfail[0] == "eval":
                # the assignment has no meaning (an expression raises) yet build succeeded
                bad("build-succeeds:expression-raises", f"build #{bi} succeeded although evaluating an argument raises")
        # ---------------- the template stays usable: more calls, another build,
        # compared with a twin that receives the same calls but was never built
        ext = case.get("ext_ops") or []
        ext_info = None
        if ext or case.get("ext_build"):
            W2 = World(case)
            n0 = len(case["ops"])
            for i, op in enumerate(case["ops"]):
                try:
                    W2.exec_op(W2.seq, i, op)
                except Exception:  # noqa: BLE001
                    pass
            o1, o2 = [], []
            for j, op in enumerate(ext):
                for Wx, outs in ((W, o1), (W2, o2)):
                    try:
                        Wx.exec_op(Wx.seq, n0 + j, op)
                        outs.append("ok")
                    except Exception as e:  # noqa: BLE001
                        outs.append(type(e).__name__)
            if o1 != o2:
                bad("template-altered:continued-use:call-outcome",
                    f"after its builds the template answers {o1} to further calls, a never-built twin {o2}",
                    dict(ext=ext))
            ta, tb = tmpl_observe(W), tmpl_observe(W2)
            if ta != tb:
                diff = [k for k in ta if ta[k] != tb[k]]
                bad("template-altered:continued-use:" + ",".join(diff),
                    f"after its builds and further calls the template differs from a never-built twin in {diff}")
            eb = case.get("ext_build")
            if eb is not None:
                env = {n: v for n, v in eb["env"]}
                qubits = {q: t for q, t in eb["qubits"]} if eb["qubits"] is not None else None
                res = []
                for Wx in (W, W2):
                    try:
                        res.append(("ok", Wx.seq.build(qubits=qubits, **env)))
                    except Exception as e:  # noqa: BLE001
                        res.append((type(e).__name__, None))
                if res[0][0] != res[1][0]:
                    bad("template-altered:continued-use:build-outcome",
                        f"building again: {res[0][0]} for the used template, {res[1][0]} for the twin")
                elif res[0][1] is not None:
                    sa = norm(seqimpl.snap_full(seqimpl.Coder(case), res[0][1]))
                    sb2 = norm(seqimpl.snap_full(seqimpl.Coder(case), res[1][1]))
                    if sa != sb2 or set(res[0][1]._qids) != set(res[1][1]._qids):
                        bad("template-altered:continued-use:build-differs",
                            "building again gives another sequence than building the twin")
            ext_info = dict(outcomes=o1, twin=o2)
    run = dict(touts=touts, tmpl=t0, builds=builds, otable=otable, world=W, param_ops=param_ops, ext=ext_info,
               finds=finds)
    return run, viols


def _op_has_ref(x):
    if is_ref(x):
        return True
    if isinstance(x, dict):
        return any(_op_has_ref(v) for v in x.values())
    if isinstance(x, list):
        return any(_op_has_ref(v) for v in x)
    return False


def _env_for_eval(case, env):
    return env


def _first_diff(a, b):
    names = ["schedule", "phase-refs", "flags"]
    for n, x, y in zip(names, a, b):
        if x != y:
            return n
    return "other"


def _direct(W: World, case, touts, qubits, user, env):
    """the same calls, issued directly with the evaluated values"""
    try:
        if case.get("mappable"):
            if not qubits:
                return None, ("register", None)
            traps = case["mappable"]["traps"]
            dec = case["mappable"]["declared"]
            if not set(qubits) <= set(dec) or set(qubits) != set(dec[: len(qubits)]):
                return None, ("register", None)
            if any((not isinstance(t, int)) or t < 0 or t >= len(traps) for t in qubits.values()):
                return None, ("register", None)
            if len(set(qubits.values())) != len(qubits):
                return None, ("register", None)
            lc = np.asarray(W.layout.coords, dtype=float)
            reg = Register({q: tuple(lc[qubits[q]]) for q in dec if q in qubits})
        else:
            if qubits is not None:
                return None, ("register", None)
            reg = W.reg
        # an assignment gives a value to every declared variable
        for v in case["vars"]:
            if v.get("foreign"):
                continue
            if v["name"] not in env:
                return None, ("env", None)
            a = np.asarray(env[v["name"]], dtype=int if v["dtype"] == "int" else float)
            if a.size != (v["size"] if v["size"] is not None else 1) or a.ndim > 1:
                return None, ("env", None)
        d = Sequence(reg, W.dev)
    except Exception as e:  # noqa: BLE001
        return None, ("register", e)
    for i, op in enumerate(case["ops"]):
        if touts[i] != 0:
            continue  # the call raised when the template was written: not part of the program
        try:
            W.exec_op(d, i, op, evalr=user)
        except _EvalError as e:
            return None, ("eval", e)
        except Exception as e:  # noqa: BLE001
            return None, ("call", e)
    return d, None


def _refs_foreign(case, x):
    foreign = {v["name"] for v in case["vars"] if v.get("foreign")}
    if not foreign:
        return False

    def node_foreign(nid, seen=()):
        n = case["heap"][nid]
        if n["k"] in ("var", "item"):
            return n.get("name", n.get("var")) in foreign
        return any(walk(a) for a in n["args"])

    def walk(y):
        if is_ref(y):
            return node_foreign(y["r"])
        if isinstance(y, dict):
            return any(walk(v) for v in y.values())
        if isinstance(y, list):
            return any(walk(v) for v in y)
        return False

    return walk(x)


def _probe_refused(W: World, case, touts, texc, first_param, qubits, user, env):
    """calls refused while the template was parametrized that the direct
    construction (same position, evaluated values) accepts"""
    cand = []
    for i, op in enumerate(case["ops"]):
        if touts[i] == 0 or i < first_param:
            continue
        if _refs_foreign(case, op):
            continue  # a variable of another sequence has no value here
        if op["op"] == "declare" and _op_has_ref(op.get("initial_target")):
            continue  # documented: the initial target cannot be parametrized
        if isinstance(op.get("qubits"), list) and any(is_ref(x) for x in op["qubits"]):
            continue
        cand.append(i)
    if not cand:
        return []
    d, _ = _direct(W, case, [1] * len(touts), qubits, user, env)  # just the empty sequence
    if d is None:
        return []
    out = []
    for i, op in enumerate(case["ops"]):
        if touts[i] != 0 and i not in cand:
            continue
        try:
            W.exec_op(d, i, op, evalr=user, strict_index=True)
            if i in cand:
                after_cfg = any(o["op"] == "config_detmap" and first_param <= j < i
                                for j, o in enumerate(case["ops"]))
                tag = ""
                on_dmm = str(op.get("channel", "")).startswith("dmm_") or any(
                    str(c).startswith("dmm_") for c in op.get("channels", []))
                gr_shift = op["op"] in ("phase_shift", "phase_shift_index") and op.get("basis") == "ground-rydberg"
                if after_cfg and (on_dmm or gr_shift):
                    # config_detuning_map returns early in a parametrized sequence:
                    # the DMM channel / its basis do not exist in the template
                    tag = ":dmm-configured-while-parametrized"
                q = op.get("qubits")
                if op["op"] == "target_index" and is_ref(q):
                    n = case["heap"][q["r"]]
                    if n["k"] == "item" and isinstance(n["key"], list):
                        tag = ":variable-item-with-index-list"
                out.append((i, (tag,)))
        except Exception:  # noqa: BLE001
            if touts[i] == 0:
                break  # cannot follow the program further
    return out


class _EvalError(Exception):
    pass


def _names(user):
    return ()


# ------------------------------------------------------------------ Coq emission
def coq_num(x):
    if isinstance(x, seqimpl_F) or isinstance(x, float):
        return "(NF " + common.fhex(float(x)) + ")"
    return "(NI " + common.coq_Z(int(x)) + ")"


def coq_value(v):
    t = v[0]
    if t == "N":
        return "(VN " + coq_num(v[1]) + ")"
    if t == "A":
        return "(VA [" + "; ".join(coq_num(x) for x in v[1]) + "])"
    if t == "S":
        return "(VS " + common.coq_Z(v[1]) + ")"
    if t == "O":
        return "(VO " + common.coq_Z(v[1]) + " [" + "; ".join(coq_value(x) for x in v[2]) + "])"
    raise ValueError(v)


def sv_num(x):
    if isinstance(x, seqimpl_F) or isinstance(x, float):
        return "(SF " + common.fhex(float(x)) + ")"
    return "(SZ " + common.coq_Z(int(x)) + ")"


def sv_value(v):
    t = v[0]
    if t == "N":
        return sv_num(v[1])
    if t == "A":
        return "(SL [SB true; SL [" + "; ".join(sv_num(x) for x in v[1]) + "]])"
    if t == "S":
        return "(SL [SB false; SZ " + common.coq_Z(v[1]) + "])"
    if t == "O":
        return "(SL [SZ " + common.coq_Z(v[1]) + "; SL [" + "; ".join(sv_value(x) for x in v[2]) + "]])"
    if t == "R":
        return "(SL [SB true; SZ " + common.coq_Z(v[1]) + "])"
    raise ValueError(v)


def sv_call(c):
    return "(SL [SZ " + common.coq_Z(c[0]) + "; SL [" + "; ".join(sv_value(a) for a in c[1]) + "]])"


class Emit:
    def __init__(self, case, run):
        self.case = case
        self.run = run
        self.W: World = run["world"]
        self.vcode = {v["name"]: i for i, v in enumerate(case["vars"])}

    def jnum(self, x):
        # a JSON number of the case -> tagged value
        if isinstance(x, bool):
            return ("N", int(x))
        if isinstance(x, int):
            return ("N", x)
        return ("N", seqimpl_F(float(x)))

    def lit_value(self, x):
        """a literal argument of the case (JSON) as a tagged value"""
        W = self.W
        if x is None:
            return ("S", -1)
        if isinstance(x, str):
            return ("S", W.strs.code(x))
        if isinstance(x, (bool, int, float)):
            return self.jnum(x)
        if isinstance(x, list):
            return ("O", 90, [self.lit_value(y) for y in x])
        raise ValueError(x)

    def parg(self, x, litobj=None):
        if is_ref(x):
            return f"(ARef {x['r']}%nat)"
        if isinstance(x, list) and any(is_ref(y) for y in x):
            items = [f"(LRef {y['r']}%nat)" if is_ref(y) else "(LLit " + coq_value(self.lit_value(y)) + ")" for y in x]
            return "(AList [" + "; ".join(items) + "])"
        if litobj is not None:
            return "(ALit " + coq_value(self.W.enc.value(litobj)) + ")"
        return "(ALit " + coq_value(self.lit_value(x)) + ")"

    def harg(self, nid, pos, a):
        if is_ref(a):
            return f"(ARef {a['r']}%nat)"
        if "i" in a:
            return "(ALit (VN (NI " + common.coq_Z(a["i"]) + ")))"
        if "f" in a:
            return "(ALit (VN (NF " + common.fhex(a["f"]) + ")))"
        if "wf" in a:
            obj = self.W.lit(("h", nid, pos), a["wf"], "wf")
            return "(ALit " + coq_value(self.W.enc.value(obj)) + ")"
        raise ValueError(a)

    def hdef(self, nid, n):
        if n["k"] == "var":
            return f"(DVar {self.vcode[n['name']]})"
        if n["k"] == "item":
            key = n["key"]
            if n.get("slice") is not None:
                size = next(v for v in self.case["vars"] if v["name"] == n["var"])["size"]
                key = list(range(size))[slice(*n["slice"])]
            k = "(KI " + common.coq_Z(key) + ")" if isinstance(key, int) else "(KL [" + "; ".join(common.coq_Z(j) for j in key) + "])"
            return f"(DItem {self.vcode[n['var']]} {k})"
        return f"(DObj {n['cls']} [" + "; ".join(self.harg(nid, i, a) for i, a in enumerate(n["args"])) + "])"

    def icall(self, i, op):
        W = self.W
        k = op["op"]
        S = lambda s: "(ALit (VS " + common.coq_Z(W.strs.code(s)) + "))"  # noqa: E731
        B = lambda b: "(ALit (VN (NI " + ("1" if b else "0") + ")))"  # noqa: E731

        def store(name, args, logged=None):
            c = f"(mkPcall {CALLS[name]} [" + "; ".join(args) + "])"
            lg = c if logged is None else f"(mkPcall {CALLS[name]} [" + "; ".join(logged) + "])"
            return f"(IStore {c} {lg})"

        if k == "declare":
            it = op.get("initial_target")
            spec = next((c for c in self.case["device"]["channels"] if c["id"] == op["channel_id"]), None)
            glob = "true" if (spec is not None and spec["addressing"] == "Global") else "false"
            return ("(IDeclare " + glob + " (VS " + common.coq_Z(W.strs.code(op["name"])) + ") (VS "
                    + common.coq_Z(W.strs.code(op["channel_id"])) + ") " + self.parg(it) + ")")
        if k in ("target", "target_index"):
            return store(k, [self.parg(op["qubits"]), S(op["channel"])])
        if k == "delay":
            return store("delay", [self.parg(op["duration"]), S(op["channel"]), B(op.get("at_rest", False))])
        if k == "add":
            p = op["pulse"]
            pa = self.parg(p) if is_ref(p) else self.parg(None, W.lit(("op", i, "pulse"), p, "pulse"))
            return store("add", [pa, S(op["channel"]), S(seqimpl.PROTO[op.get("protocol", 0)])])
        if k == "add_dmm":
            w = op["wf"]
            wa = self.parg(w) if is_ref(w) else self.parg(None, W.lit(("op", i, "wf"), w, "wf"))
            return store("add_dmm_detuning", [wa, S(op["channel"]), S(seqimpl.PROTO[op.get("protocol", 1)])])
        if k == "align":
            return store("align", [B(op.get("at_rest", True))] + [S(c) for c in op["channels"]])
        if k in ("phase_shift", "phase_shift_index"):
            return store(k, [self.parg(op["phi"]), S(op.get("basis", "digital"))]
                         + [self.parg(t) for t in op.get("targets", [])])
        if k == "measure":
            return store("measure", [S(op.get("basis", "ground-rydberg"))])
        if k in ("enable_eom", "modify_eom"):
            name = "enable_eom_mode" if k == "enable_eom" else "modify_eom_setpoint"
            off = op.get("opt_off", 0.0)
            args = [S(op["channel"]), self.parg(op["amp_on"]), self.parg(op["det_on"]), self.parg(off),
                    B(op.get("correct", False))]
            logged = list(args)
            if not is_ref(off):
                chosen = float(off)
                if not is_ref(op["amp_on"]) and not is_ref(op["det_on"]):
                    ch = W.seq.declared_channels.get(op["channel"])
                    try:
                        chosen = float(ch.eom_config.calculate_detuning_off(op["amp_on"], op["det_on"], float(off)))
                    except Exception:  # noqa: BLE001
                        pass
                logged[3] = "(ALit (VN (NF " + common.fhex(chosen) + ")))"
            return store(name, args, logged)
        if k == "disable_eom":
            return store("disable_eom_mode", [S(op["channel"]), B(op.get("correct", False))])
        if k == "add_eom":
            return store("add_eom_pulse", [S(op["channel"]), self.parg(op["duration"]), self.parg(op["phase"]),
                                           self.parg(op.get("post", 0.0)),
                                           S(seqimpl.PROTO[op.get("protocol", 0)]), B(op.get("correct", False))])
        if k == "config_detmap":
            return store("config_detuning_map", ["(ALit (VS " + str(2000 + op["map"]) + "))", S(op["dmm_id"])])
        raise ValueError(k)

    def env_term(self, env):
        out = []
        for n, v in env:
            code = self.vcode.get(n, 950)
            vals = v if isinstance(v, list) else [v]
            out.append(f"({code}, [" + "; ".join(coq_num(x) for x in vals) + "])")
        return "[" + "; ".join(out) + "]"

    def terms(self):
        case, run, W = self.case, self.run, self.W
        own = [v for v in case["vars"] if not v.get("foreign")]
        decl = "[" + "; ".join(str(self.vcode[v["name"]]) for v in own) + "]"
        vs = "[" + "; ".join(
            f"mkVar {self.vcode[v['name']]} {'true' if v['dtype'] == 'int' else 'false'} "
            f"{v['size'] if v['size'] is not None else 1} 0 None" for v in own) + "]"
        defs = "[" + ";\n    ".join(self.hdef(i, n) for i, n in enumerate(case["heap"])) + "]"
        ops = "[" + ";\n    ".join(f"({self.icall(i, op)}, {run['touts'][i]})" for i, op in enumerate(case["ops"])) + "]"
        mp = "None"
        if case.get("mappable"):
            m = case["mappable"]
            mp = "(Some ([" + "; ".join(str(W.strs.code(q)) for q in m["declared"]) + f"], {len(m['traps'])}))"
        bs = []
        exp_b = []
        for b, obs in zip(case["builds"], run["builds"]):
            q = "None"
            if b["qubits"] is not None:
                q = "(Some [" + "; ".join(f"({W.strs.code(x)}, {common.coq_Z(t)})" for x, t in b["qubits"]) + "])"
            fail = "None"
            if obs.get("fail"):
                fail = f"(Some ({obs['fail'][0]}, {obs['fail'][1]}))"
            bs.append(f"(mkB {q} {self.env_term(b['env'])} {fail})")
            calls = [sv_call(c) for c in obs["calls"]] if obs["out"] == 0 else []
            if obs["out"] == 0 and obs["reg"] is not None:
                regcall = ("(SL [SZ 0; SL [" + "; ".join(
                    f"(SL [SZ 90; SL [SZ {a}; SZ {common.coq_Z(t)}]])" for a, t in obs["reg"]) + "]])")
                calls.insert(obs["n_replayed"], regcall)
            exp_b.append(f"(SL [SZ {obs['out']}; SL [" + "; ".join(calls) + "]])")
        ofun = "[" + "; ".join(
            f"({k[0]}, {common.fhex(float.fromhex(k[1]))}, {common.fhex(v)})"
            for k, v in run["otable"].items() if k[0] != "pow") + "]"
        opow = "[" + "; ".join(
            f"({common.fhex(float.fromhex(k[1]))}, {common.fhex(float.fromhex(k[2]))}, {common.fhex(v)})"
            for k, v in run["otable"].items() if k[0] == "pow") + "]"
        t = run["tmpl"]
        expect = ("(SL [SL [" + "; ".join(f"SZ {x}" for x in run["touts"]) + "];\n    SL ["
                  + "; ".join(sv_call(c) for c in t["calls"]) + "];\n    SL ["
                  + "; ".join(sv_call(c) for c in t["tobuild"]) + "];\n    SB "
                  + ("true" if t["building"] else "false") + ";\n    SL [" + ";\n      ".join(exp_b) + "]])")
        flists, fexp = [], []
        if case.get("mappable"):
            for ids, obs in zip(case.get("find") or [], run.get("finds") or []):
                flists.append("[" + "; ".join(str(W.strs.code(x)) for x in ids) + "]")
                fexp.append(f"(SL [SZ {obs[0]}; SL [" + "; ".join(f"SZ {j}" for j in obs[1]) + "]])")
        expect = expect[:-2] + ";\n    SL [" + "; ".join(fexp) + "]])"
        model = (f"(run_case (ofun_tab {ofun}) (opow_tab {opow})\n   {decl}\n   {vs}\n   {defs}\n   {ops}\n   {mp}\n   ["
                 + ";\n    ".join(bs) + "]\n   [" + "; ".join(flists) + "])")
        return model, expect


def cases_file(items) -> str:
    out = [
        "From Coq Require Import ZArith List Bool.",
        "From Coq Require Import PrimFloat.",
        "From PV Require Import Model.Base Model.Param Model.ParamCase.",
        "Import ListNotations.",
        "Open Scope Z_scope.",
    ]
    names = []
    for i, (model, expect) in enumerate(items):
        out.append(f"Definition m{i} : sv :=\n  {model}.")
        out.append(f"Definition e{i} : sv :=\n  {expect}.")
        names.append(f"(m{i}, e{i})")
    out.append("Definition bad : list Z := mismatches [" + "; ".join(names) + "].")
    out.append("Eval vm_compute in bad.")
    return "\n".join(out) + "\n"


def debug_file(model, expect) -> str:
    return "\n".join([
        "From Coq Require Import ZArith List Bool.",
        "From Coq Require Import PrimFloat.",
        "From PV Require Import Model.Base Model.Param Model.ParamCase.",
        "Import ListNotations.",
        "Open Scope Z_scope.",
        f"Definition m : sv :=\n  {model}.",
        f"Definition e : sv :=\n  {expect}.",
        "Eval vm_compute in m.",
        "Eval vm_compute in e.",
    ]) + "\n"
