"""C14 helpers: channels, the impulse response of Channel.apply_modulation,
the property oracles (direct executable readings of the clauses of C14) and
the classification of the violations the unchanged tree is known to have."""
from __future__ import annotations

import math
import warnings

import numpy as np

from pulser.channels import Rydberg
from pulser.channels.eom import RydbergBeam, RydbergEOM

REL = 1e-9  # relative tolerance for value clauses (DESIGN.md 2.1)
NOMINAL_MODBW_TO_TR = 0.48


def arr(a) -> np.ndarray:
    if hasattr(a, "as_array"):
        a = a.as_array(detach=True)
    return np.asarray(a, dtype=float)


def build_chan(bw, eom_bw=None, cbt=None):
    eom = None
    if eom_bw is not None:
        eom = RydbergEOM(
            limiting_beam=RydbergBeam.RED,
            max_limiting_amp=30 * 2 * math.pi,
            intermediate_detuning=700 * 2 * math.pi,
            controlled_beams=(RydbergBeam.BLUE,),
            mod_bandwidth=eom_bw,
            custom_buffer_time=cbt,
        )
    return Rydberg.Global(None, None, mod_bandwidth=bw, eom_config=eom)


def kernel(ch, n: int, bw: float) -> np.ndarray:
    """impulse response of apply_modulation on n samples"""
    x = np.zeros(n)
    x[0] = 1.0
    return arr(ch.apply_modulation(x, bw))


def h_nyquist(bw: float) -> float:
    """the Gaussian transfer function of the documentation at the Nyquist
    frequency 0.5 cycles/ns: what is cut off by the finite spectrum"""
    fc = bw * 1e-3 / math.sqrt(math.log(2))
    return math.exp(-0.25 / fc**2)


def nominal_rise(bw: float) -> int:
    return int(NOMINAL_MODBW_TO_TR / bw * 1e3)


def leak_class(bw: float, magnitude_rel: float) -> str:
    """suffix ':nyquist-leak' when a violation of the given relative size is
    explained by the truncated spectrum (known finding), '' otherwise: the
    transfer function is still h >= 1e-9 at the Nyquist frequency and the
    under/overshoot does not exceed h (the negative lobes of the impulse
    response have total mass between 0.1 h and 0.3 h)"""
    h = h_nyquist(bw)
    if h >= 1e-9 and magnitude_rel <= h:
        return ":nyquist-leak"
    return ""


def rise_truncated(bw: float, tr: int) -> bool:
    """int() truncation of 480/bw leaves less than 98% of the nominal
    10-90% rise time: a constant pulse's tail at tr is then > 0.6% of peak"""
    return tr == nominal_rise(bw) and (tr + 0.5) * bw < 471.0


def rise_margin_ok(bw: float) -> bool:
    """keep generated bandwidths away from the 0.6% decision boundary"""
    v = (nominal_rise(bw) + 0.5) * bw
    return not (464.0 <= v <= 478.0)


def isolated_tail(ch, x: np.ndarray, bw: float, tr: int, e: int) -> float:
    """max |output| of the isolated pulse x at and beyond e samples after its
    end (output aligned with the input), padding wide enough for the
    periodic wrap-around to be irrelevant"""
    off = 8 * tr + 64
    y = arr(ch.apply_modulation(np.pad(x, off), bw))
    return float(np.max(np.abs(y[off + len(x) + e:])))


def tail_threshold(x: np.ndarray) -> float:
    return max(0.01, 0.006 * float(np.max(np.abs(x)))) if x.size else 0.01


def quiet():
    cm = warnings.catch_warnings()
    cm.__enter__()
    warnings.simplefilter("ignore")
    return cm
