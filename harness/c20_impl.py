"""C20 implementation runner and property oracle.

run_case(case) executes the code of the tree under verification on one case
and returns (run, violations): `run` holds the real outputs (what the Coq
model is compared with), `violations` are failures of the property statement
itself, checked with independent numpy definitions."""
from __future__ import annotations

import math
import warnings
from fractions import Fraction

import numpy as np
import qutip

import pulser
from pulser import Pulse, Register
from pulser.backend.default_observables import (
    BitStrings,
    CorrelationMatrix,
    Energy,
    EnergySecondMoment,
    EnergyVariance,
    Expectation,
    Fidelity,
    Occupation,
    StateResult,
)
from pulser.backend.results import Results
from pulser.devices import AnalogDevice, MockDevice
from pulser.noise_model import NoiseModel
from pulser_simulation import QutipBackendV2, QutipConfig, QutipOperator, QutipState

from harness.framework import Violation

TOL = 1e-9


def close(a, b, tol=TOL):
    a = complex(a)
    b = complex(b)
    if math.isnan(a.real) or math.isnan(a.imag):
        return False
    return abs(a - b) <= tol * (1 + abs(b))


def carr(rows, den):
    return np.array([[complex(a, b) for a, b in row] for row in rows], dtype=complex) / den


def qobj_state(st, d, n):
    a = carr(st["rows"], st["den"])
    if st["type"] == "ket":
        return qutip.Qobj(a.reshape(-1, 1), dims=[[d] * n, [1] * n])
    return qutip.Qobj(a, dims=[[d] * n, [d] * n])


def qobj_oper(m, d, n):
    return qutip.Qobj(carr(m["rows"], m["den"]), dims=[[d] * n, [d] * n])


def rho_of(st):
    a = carr(st["rows"], st["den"])
    if st["type"] == "ket":
        v = a.reshape(-1)
        return np.outer(v, v.conj())
    return a


def digits(k, d, n):
    out = []
    for _ in range(n):
        out.append(k % d)
        k //= d
    return out[::-1]


def exc_name(e):
    return type(e).__name__


def cplx(x):
    x = complex(x)
    return [float(x.real), float(x.imag)]


# ======================================================================= obs
def definitions(rho, H, d, n, one_idx):
    """the observables as the property defines them, on a density matrix"""
    D = d ** n
    diag = np.real(np.diag(rho))
    dg = [digits(k, d, n) for k in range(D)]
    occ = [sum(diag[k] for k in range(D) if dg[k][i] == one_idx) for i in range(n)]
    corr = [[sum(diag[k] for k in range(D) if dg[k][i] == one_idx and dg[k][j] == one_idx)
             for j in range(n)] for i in range(n)]
    out = dict(occupation=occ, correlation=corr)
    if H is not None:
        e = np.trace(rho @ H)
        m2 = np.trace(rho @ H @ H)
        out.update(energy=e, second_moment=m2.real, variance=(m2 - e * e).real)
    return out


def moment_signatures(rho, H, mixed, m2, var):
    """signatures for a wrong second moment / variance (the mixed-state defect of
    the original tree was repaired by 2eafc757; nothing is classified as known)"""
    tag = "mixed-state" if mixed else "pure-state"
    return "second-moment:wrong-value:" + tag, "variance:wrong-value:" + tag


def bit_distribution(rho, d, n, one_idx, pfp, pfn):
    D = d ** n
    diag = np.abs(np.real(np.diag(rho)))
    tot = diag.sum()
    p = {}
    for k in range(D):
        b = tuple(1 if x == one_idx else 0 for x in digits(k, d, n))
        p[b] = p.get(b, 0.0) + diag[k] / tot
    if pfp == 0 and pfn == 0:
        return {"".join(map(str, b)): v for b, v in p.items() if v > 0}
    q = {}
    for b, v in p.items():
        if v == 0:
            continue
        for m in range(2 ** n):
            c = tuple((m >> (n - 1 - i)) & 1 for i in range(n))
            w = 1.0
            for bi, ci in zip(b, c):
                if bi == 1:
                    w *= pfn if ci == 0 else 1 - pfn
                else:
                    w *= pfp if ci == 1 else 1 - pfp
            if w:
                q[c] = q.get(c, 0.0) + v * w
    return {"".join(map(str, b)): v for b, v in q.items()}


def check_counts(counts, dist, shots, sig, what, case, viols):
    tot = sum(counts.values())
    if tot != shots:
        viols.append(Violation(sig + ":shot-count", f"{what}: {tot} samples for {shots} shots", case))
        return
    for b, c in counts.items():
        if dist.get(b, 0.0) <= 0.0:
            viols.append(Violation(sig + ":impossible-outcome", f"{what}: sampled {b!r} which has probability 0", case))
            return
    for b, p in dist.items():
        c = counts.get(b, 0)
        bound = 7.0 * math.sqrt(max(p * (1 - p), 0.0) / shots) + 3.0 / shots + 0.02 * 2 ** len(b) / 1000
        if abs(c / shots - p) > bound:
            viols.append(Violation(sig + ":distribution", f"{what}: frequency of {b!r} is {c / shots:.4f}, probability {p:.4f} (bound {bound:.4f})", case))
            return


def run_obs(case):
    d, n, basis = case["d"], case["n"], tuple(case["basis"])
    one = case["one"]
    one_arg = one if case["explicit_one"] else None
    one_idx = basis.index(one)
    viols: list[Violation] = []
    run = dict(kind="obs", ok=True)

    def bad(sig, what):
        viols.append(Violation(sig, what, case))

    try:
        qs = QutipState(qobj_state(case["state"], d, n), eigenstates=basis)
        ham = QutipOperator(qobj_oper(case["H"], d, n), eigenstates=basis)
        op = QutipOperator(qobj_oper(case["op"], d, n), eigenstates=basis)
        tg = case["target"]
        tstate = QutipState(qobj_state(tg, d, n), eigenstates=basis)
        nm = NoiseModel(p_false_pos=case["p_false_pos"], p_false_neg=case["p_false_neg"]) \
            if (case["p_false_pos"] or case["p_false_neg"]) else NoiseModel()
        with warnings.catch_warnings():
            warnings.simplefilter("ignore")
            cfg = QutipConfig(observables=[StateResult()], noise_model=nm)
    except Exception as e:  # noqa: BLE001
        bad("obs:setup-raises:" + exc_name(e), f"building state/operator/config objects raised {e!r}")
        run["ok"] = False
        return run, viols

    mixed = case["state"]["type"] == "dm"
    tag = "mixed-state" if mixed else "pure-state"
    rho = rho_of(case["state"])
    Hm = carr(case["H"]["rows"], case["H"]["den"])
    defs = definitions(rho, Hm, d, n, one_idx)

    def call(name, f):
        try:
            with warnings.catch_warnings():
                warnings.simplefilter("ignore")
                return f()
        except Exception as e:  # noqa: BLE001
            bad(f"{name}:raises:{exc_name(e)}", f"{name} raised {e!r} on a valid {tag}")
            run["ok"] = False
            return None

    kw = dict(config=cfg, state=qs, hamiltonian=ham)
    occ = call("occupation", lambda: Occupation(one_state=one_arg).apply(**kw))
    corr = call("correlation", lambda: CorrelationMatrix(one_state=one_arg).apply(**kw))
    en = call("energy", lambda: Energy().apply(**kw))
    var = call("variance", lambda: EnergyVariance().apply(**kw))
    m2 = call("second-moment", lambda: EnergySecondMoment().apply(**kw))
    fid = call("fidelity", lambda: Fidelity(tstate).apply(**kw))
    ex = call("expectation", lambda: Expectation(op).apply(**kw))
    sr = call("state", lambda: StateResult().apply(**kw))
    probs = call("bitstring-probabilities", lambda: qs.bitstring_probabilities(one_state=one_arg))
    np.random.seed(case["seed"])
    bits = call("bitstrings", lambda: BitStrings(num_shots=case["shots"], one_state=one_arg).apply(**kw))
    if not run["ok"]:
        return run, viols

    try:
        run.update(
            occupation=[float(np.real(x)) for x in occ],
            correlation=[[float(np.real(x)) for x in row] for row in corr],
            energy=cplx(en), variance=float(var), second_moment=float(m2), fidelity=float(fid),
            expectation=cplx(ex),
            probs=sorted((int(k, 2), float(v)) for k, v in probs.items()),
        )
    except Exception as e:  # noqa: BLE001
        bad("obs:malformed-output:" + exc_name(e), f"an observable returned a value of unexpected shape: {e!r}")
        run["ok"] = False
        return run, viols

    # ---- oracle: the property statement on the real outputs
    if len(occ) != n or any(not close(a, b) for a, b in zip(occ, defs["occupation"])):
        bad("occupation:wrong-value:" + tag, f"occupation {list(occ)} != definition {defs['occupation']}")
    if len(corr) != n or any(len(r) != n for r in corr) or any(
        not close(corr[i][j], defs["correlation"][i][j]) for i in range(n) for j in range(n)
    ):
        bad("correlation:wrong-value:" + tag, f"correlation matrix {corr} != definition {defs['correlation']}")
    if not close(en, defs["energy"]):
        bad("energy:wrong-value:" + tag, f"energy {en} != Tr(rho H) = {defs['energy']}")
    sig_m2, sig_var = moment_signatures(rho, Hm, mixed, m2, var)
    if not close(m2, defs["second_moment"], 4e-9):
        bad(sig_m2, f"second moment {m2} != Tr(rho H^2) = {defs['second_moment']}")
    if not close(var, defs["variance"], 1e-8) and abs(var - defs["variance"]) > 1e-7 * (1 + abs(defs["second_moment"])):
        bad(sig_var, f"variance {var} != Tr(rho H^2) - Tr(rho H)^2 = {defs['variance']}")
    # fidelity: <psi|rho|psi> for a pure target, Tr(A rho) in general
    trho = rho_of(tg)
    fdef = np.trace(trho.conj().T @ rho).real
    if not close(fid, fdef):
        bad("fidelity:wrong-value:" + tag, f"fidelity {fid} != {fdef}")
    Om = carr(case["op"]["rows"], case["op"]["den"])
    if not close(ex, np.trace(rho @ Om)):
        bad("expectation:wrong-value:" + tag, f"expectation {ex} != Tr(rho O) = {np.trace(rho @ Om)}")
    # StateResult: a copy of the state
    try:
        same = np.allclose(sr.to_qobj().full(), qs.to_qobj().full(), rtol=0, atol=0) and sr.eigenstates == qs.eigenstates
    except Exception:  # noqa: BLE001
        same = False
    if not same or sr is qs:
        bad("state:not-a-copy", "StateResult.apply did not return an equal copy of the state")
    # measurement probabilities and sampled bitstrings
    clash = ""  # the relabelling defect (eigenstate named "1" that is not the one-state) was repaired by ecb1d50e
    dist0 = bit_distribution(rho, d, n, one_idx, 0.0, 0.0)
    got = {format(k, "0%db" % n): v for k, v in run["probs"]}
    if set(got) != set(dist0) or any(not close(got[b], dist0[b]) for b in got):
        bad("bitstring-probabilities:wrong-value" + clash, f"bitstring probabilities {got} != {dist0} (eigenstates {basis}, one-state {one!r})")
    dist = bit_distribution(rho, d, n, one_idx, case["p_false_pos"], case["p_false_neg"])
    check_counts(dict(bits), dist, case["shots"], "bitstrings" + clash, "BitStrings.apply", case, viols)
    run["counts"] = dict(bits)
    return run, viols


# ======================================================================= alg
def py_fullop(ops, den):
    return [(complex(*c) / den, [({k: complex(*v) for k, v in q.items()}, list(inds)) for q, inds in t]) for c, t in ops]


def np_fullop(ops, den, basis, n):
    d = len(basis)
    D = d ** n
    full = np.zeros((D, D), dtype=complex)
    for c, t in ops:
        fac = [np.eye(d, dtype=complex) for _ in range(n)]
        for q, inds in t:
            m = np.zeros((d, d), dtype=complex)
            for k, v in q.items():
                m[basis.index(k[0]), basis.index(k[1])] += complex(*v)
            for i in inds:
                fac[i] = m
        tp = np.array([[1.0 + 0j]])
        for f in fac:
            tp = np.kron(tp, f)
        full += complex(*c) / den * tp
    return full


def mat_out(m):
    m = np.asarray(m)
    return dict(re=[[float(x.real) for x in row] for row in m], im=[[float(x.imag) for x in row] for row in m])


def run_alg(case):
    d, n, basis = case["d"], case["n"], tuple(case["basis"])
    D = d ** n
    viols: list[Violation] = []
    run = dict(kind="alg")

    def bad(sig, what):
        viols.append(Violation(sig, what, case))

    def build(ops, den):
        try:
            with warnings.catch_warnings():
                warnings.simplefilter("ignore")
                return 0, QutipOperator.from_operator_repr(eigenstates=basis, n_qudits=n, operations=py_fullop(ops, den))
        except ValueError:
            return 1, None
        except TypeError:
            return 2, None
        except Exception as e:  # noqa: BLE001
            return 9, e

    outA, A = build(case["opsA"], case["denA"])
    outB, B = build(case["opsB"], case["denB"])
    run["outA"], run["outB"] = outA, outB
    kindbad = case["bad"]
    if kindbad in ("key-len", "key-char", "ind-range", "ind-dup"):
        if outA != 1:
            bad("from-repr:invalid-accepted:" + kindbad, f"malformed operator representation ({kindbad}) gave outcome {outA}, expected ValueError")
    elif kindbad is None and outA != 0:
        bad("from-repr:valid-rejected", f"valid operator representation rejected (outcome {outA}: {A!r})")
    if outB != 0:
        bad("from-repr:valid-rejected", f"valid operator representation rejected (outcome {outB})")

    try:
        qs = QutipState(qobj_state(case["state"], d, n), eigenstates=basis)
    except Exception as e:  # noqa: BLE001
        bad("alg:setup-raises:" + exc_name(e), f"QutipState(...) raised {e!r}")
        qs = None
    rho = rho_of(case["state"])
    ket = case["state"]["type"] == "ket"

    if outA == 0 and outB == 0 and qs is not None:
        try:
            z = complex(*case["scalar"]["z"]) / case["scalar"]["den"]
            mA = A.to_qobj().full()
            mB = B.to_qobj().full()
            mS = (A + B).to_qobj().full()
            mC = (z * A).to_qobj().full()
            mP = (A @ B).to_qobj().full()
            ap = A.apply_to(qs)
            mAp = ap.to_qobj().full()
            ex = complex(A.expect(qs))
            run.update(A=mat_out(mA), B=mat_out(mB), sum=mat_out(mS), scaled=mat_out(mC), prod=mat_out(mP),
                       applied=mat_out(mAp if not ket else mAp.reshape(1, -1)), expect=cplx(ex), algebra=True)
            refA = np_fullop(case["opsA"], case["denA"], basis, n)
            refB = np_fullop(case["opsB"], case["denB"], basis, n)
            ok = lambda x, y: np.allclose(x, y, rtol=1e-9, atol=1e-9)  # noqa: E731
            if not ok(mA, refA) or not ok(mB, refB):
                bad("from-repr:wrong-matrix", "operator built from its representation differs from the tensor-product construction")
            if not ok(mS, mA + mB):
                bad("operator:add", "(A + B) is not the matrix sum")
            if not ok(mC, z * mA):
                bad("operator:scale", "(c * A) is not the scaled matrix")
            if not ok(mP, mA @ mB):
                bad("operator:matmul", "(A @ B) is not the matrix product A.B")
            psi = carr(case["state"]["rows"], case["state"]["den"])
            if ket:
                if not ok(mAp.reshape(-1), mA @ psi.reshape(-1)) or ap.to_qobj().type != "ket":
                    bad("operator:apply_to:ket", "A.apply_to(psi) is not A.psi")
                if not close(ex, psi.reshape(-1).conj() @ mA @ psi.reshape(-1)):
                    bad("operator:expect:ket", "A.expect(psi) is not <psi|A|psi>")
            else:
                if not ok(mAp, mA @ rho @ mA.conj().T):
                    bad("operator:apply_to:dm", "A.apply_to(rho) is not A.rho.A^dag")
                if not close(ex, np.trace(mA @ rho)):
                    bad("operator:expect:dm", "A.expect(rho) is not Tr(A rho)")
            if A.eigenstates != basis or (A + B).eigenstates != basis or (A @ B).eigenstates != basis:
                bad("operator:eigenstates", "eigenstates not preserved by the algebra")
        except Exception as e:  # noqa: BLE001
            bad("operator:algebra-raises:" + exc_name(e), f"operator algebra raised {e!r}")
            run["algebra"] = False
    else:
        run["algebra"] = False

    # states from amplitudes
    amps = {k: complex(*v) / case["aden"] for k, v in case["amps"]}
    try:
        with warnings.catch_warnings():
            warnings.simplefilter("ignore")
            st = QutipState.from_state_amplitudes(eigenstates=basis, amplitudes=amps)
        run["amp_out"] = 0
        vec = st.to_qobj().full().reshape(-1)
        run["amp_vec"] = dict(re=[float(x.real) for x in vec], im=[float(x.imag) for x in vec])
        if case["bad_amps"]:
            bad("from-amplitudes:invalid-accepted:" + case["bad_amps"], "malformed amplitudes accepted")
        else:
            ref = np.zeros(D, dtype=complex)
            for k, v in amps.items():
                idx = 0
                for ch in k:
                    idx = idx * d + basis.index(ch)
                ref[idx] += v
            if len(vec) != D or not np.allclose(vec, ref, rtol=1e-12, atol=1e-12) or st.n_qudits != n:
                bad("from-amplitudes:wrong-vector", "state built from amplitudes differs from the basis expansion")
    except ValueError:
        run["amp_out"] = 1
        if not case["bad_amps"]:
            bad("from-amplitudes:valid-rejected", "valid amplitudes rejected")
    except Exception as e:  # noqa: BLE001
        run["amp_out"] = 9
        bad("from-amplitudes:raises:" + exc_name(e), f"from_state_amplitudes raised {e!r}")

    # basis-state strings
    labels = []
    if qs is not None:
        for k in case["idx"]:
            try:
                s = qs.get_basis_state_from_index(k)
                labels.append([basis.index(c) for c in s])
                exp = "".join(basis[x] for x in digits(k, d, n))
                if s != exp:
                    bad("basis-state-from-index", f"index {k} -> {s!r}, expected {exp!r}")
            except Exception as e:  # noqa: BLE001
                labels.append([-1])
                bad("basis-state-from-index:raises:" + exc_name(e), f"get_basis_state_from_index({k}) raised {e!r}")
    run["labels"] = labels
    return run, viols


# ===================================================================== times
def within(t, lst, tol):
    return any(abs(e - t) <= tol for e in lst)


def times_oracle(case, T, dflt, obs_specs, stored, fed, status, viols, check_missing=True, must_emulate=False):
    """obs_specs: list of (label, own); stored: list of lists of stored times"""
    tol = 0.5 / T if T else 1e-6

    def bad(sig, what):
        viols.append(Violation(sig, what, case))

    for (label, own), ts in zip(obs_specs, stored):
        if any(not (a < b) for a, b in zip(ts, ts[1:])):
            bad("results:times-not-ascending", f"{label}: stored times {ts} are not strictly ascending")
        if dflt == "Full" and own is None:
            req = None
        else:
            req = list(own) if own is not None else list(dflt)
        if req is None:
            # every fed time in [0,1] is requested
            if status == 0 and check_missing:
                want = [t for t in fed if 0.0 <= t <= 1.0]
                if list(ts) != want:
                    bad("results:full-times-differ", f"{label}: stored {ts[:5]}.. for requested (Full) {want[:5]}..")
            continue
        # assign to each requested time its nearest stored time within tol
        used = set()
        for r in req:
            cand = [(abs(t - r), i) for i, t in enumerate(ts) if abs(t - r) <= tol]
            if cand:
                used.add(min(cand)[1])
            elif status == 0 and check_missing and any(0.0 <= t <= 1.0 and abs(t - r) <= tol for t in fed):
                bad("results:requested-time-missing", f"{label}: requested time {r} was emulated but no value is stored (stored: {ts})")
            elif status == 0 and must_emulate:
                # a backend run: every requested time must have been emulated and stored
                near = min(fed, key=lambda x: abs(x - r)) if fed else None
                bad("results:requested-time-not-emulated",
                    f"{label}: requested time {r} has no stored value and the emulation did not stop there "
                    f"(closest emulated time {near}, tolerance {tol}, default times {dflt})")
        for i, t in enumerate(ts):
            if i in used:
                continue
            if within(t, req, tol):
                bad("results:two-values-for-one-request:within-tolerance",
                    f"{label}: stored times {ts} hold more than one value for a requested time of {req} (tolerance {tol})")
            elif own is not None and (dflt == "Full" or within(t, dflt, tol)):
                bad("results:unrequested-time:default-times-also-applied",
                    f"{label}: asked for {own} only, but a value is also stored at the config's default time {t}")
            else:
                bad("results:unrequested-time", f"{label}: value stored at {t}, which was not requested ({req})")


def retrieval_oracle(case, res, observables, viols):
    def bad(sig, what):
        viols.append(Violation(sig, what, case))

    for ob in observables:
        if ob.uuid not in res._results:
            continue
        try:
            ts = res.get_result_times(ob)
            if ts != res.get_result_times(ob.tag):
                bad("results:tag-vs-observable", f"{ob.tag}: times by tag differ from times by observable")
            vals = list(res._results[ob.uuid])
            if len(vals) != len(ts):
                bad("results:count-mismatch", f"{ob.tag}: {len(vals)} values for {len(ts)} times")
            byattr = getattr(res, ob.tag)
            tagged = res.get_tagged_results()[ob.tag]
            if len(byattr) != len(vals) or len(tagged) != len(vals) or any(a is not b for a, b in zip(byattr, vals)) \
                    or any(a is not b for a, b in zip(tagged, vals)):
                bad("results:attribute-access", f"{ob.tag}: results.<tag> / get_tagged_results differ from the stored list")
            for t, v in zip(ts, vals):
                if res.get_result(ob, t) is not v or res.get_result(ob.tag, t) is not v:
                    bad("results:get_result", f"{ob.tag}: get_result at {t} does not return the value stored for that time")
            if ob.tag not in res.get_result_tags():
                bad("results:tags", f"{ob.tag} missing from get_result_tags()")
        except Exception as e:  # noqa: BLE001
            bad("results:retrieval-raises:" + exc_name(e), f"{ob.tag}: retrieval raised {e!r}")


def run_times(case):
    T = case["T"]
    dflt = case["dflt"]
    viols: list[Violation] = []
    run = dict(kind="times")

    def bad(sig, what):
        viols.append(Violation(sig, what, case))

    try:
        observables = [Energy(evaluation_times=o["own"], tag_suffix=f"o{i}") for i, o in enumerate(case["obs"])]
        with warnings.catch_warnings():
            warnings.simplefilter("ignore")
            cfg = QutipConfig(observables=observables, default_evaluation_times=dflt)
        res = Results(atom_order=("q0",), total_duration=T)
        psi = QutipState(qutip.basis(2, 0), eigenstates=("r", "g"))
    except Exception as e:  # noqa: BLE001
        bad("results:setup-raises:" + exc_name(e), f"building observables/config/results raised {e!r}")
        run.update(status=9, stored=[[] for _ in case["obs"]], setup=False)
        return run, viols
    status = 0
    err = None
    for t in case["ts"]:
        ham = QutipOperator(qutip.Qobj(np.diag([t, 0.0])), eigenstates=("r", "g"))
        for ob in observables:
            try:
                with warnings.catch_warnings():
                    warnings.simplefilter("ignore")
                    ob(config=cfg, t=t, state=psi, hamiltonian=ham, result=res)
            except ValueError as e:
                status, err = 1, e
            except (RuntimeError, AssertionError) as e:
                status, err = 2, e
            except Exception as e:  # noqa: BLE001
                status, err = 9, e
            if status:
                break
        if status:
            break
    stored = [[float(x) for x in res._times.get(ob.uuid, [])] for ob in observables]
    run.update(status=status, stored=stored, setup=True)
    # ---- oracle
    legit_feed = case["mal"] is None
    if status and legit_feed:
        if dflt != "Full" and len(dflt) != 1 and status == 1:
            bad("eval-times:default-list-length-not-1",
                f"default_evaluation_times={dflt}: Observable.__call__ raised {err!r}")
        else:
            bad("results:call-raises:" + exc_name(err), f"Observable.__call__ raised {err!r} on a legitimate time feed")
    specs = [(ob.tag, o["own"]) for ob, o in zip(observables, case["obs"])]
    times_oracle(case, T, dflt, specs, stored, case["ts"], status, viols, check_missing=legit_feed)
    retrieval_oracle(case, res, observables, viols)
    # stored values: the observable evaluated at that time (energy of |0> under diag(t,0) is t)
    for ob, ts in zip(observables, stored):
        vals = res._results.get(ob.uuid, [])
        if any(not close(v, t, 1e-12) for v, t in zip(vals, ts)):
            bad("results:value-of-other-time", f"{ob.tag}: values {vals} are not those computed at times {ts}")
    return run, viols


# =================================================================== backend
EIG = {"ising": ("r", "g"), "xy": ("u", "d"), "all": ("r", "g", "h")}
ONE = {"ising": "r", "xy": "d", "all": "r"}


def build_sequence(case):
    n = case["n_atoms"]
    reg = Register.from_coordinates([(i * case["spacing"], 0.0) for i in range(n)], prefix="q")
    seq = pulser.Sequence(reg, AnalogDevice if case.get("modulated") else MockDevice)
    if case["level"] == "xy":
        seq.declare_channel("mw", "mw_global")
        ch = "mw"
    else:
        seq.declare_channel("ryd", "rydberg_global")
        ch = "ryd"
    for p in case["pulses"]:
        seq.add(Pulse.ConstantPulse(p["dur"], p["amp"], p["det"], p["phase"]), ch)
    if case["level"] == "all":
        seq.declare_channel("ram", "raman_local", initial_target="q0")
        r = case["raman"]
        seq.add(Pulse.ConstantPulse(case["pulses"][0]["dur"], r["amp"], r["det"], 0.0), "ram", protocol="no-delay")
    return seq


def quant(a, bits):
    s = 1 << bits
    a = np.asarray(a)
    return [[[int(round(float(x.real) * s)), int(round(float(x.imag) * s))] for x in row] for row in a]


def run_backend(case):
    viols: list[Violation] = []
    run = dict(kind="backend", ok=False)
    level = case["level"]
    eig = EIG[level]
    d = len(eig)
    n = case["n_atoms"]
    one = ONE[level]
    one_idx = eig.index(one)
    noise = case["noise"]
    stochastic = ("temperature" in noise) or (noise.get("amp_sigma", 0) != 0) or (noise.get("state_prep_error", 0) != 0)
    branch = "stochastic" if stochastic else "single-run"

    def bad(sig, what):
        viols.append(Violation(sig, what, case))

    np.random.seed(case["seed"])
    try:
        with warnings.catch_warnings():
            warnings.simplefilter("ignore")
            seq = build_sequence(case)
            target = QutipState.from_state_amplitudes(eigenstates=eig, amplitudes={one * n: 1.0})
            xop = QutipOperator.from_operator_repr(
                eigenstates=eig, n_qudits=n,
                operations=[(1.0, [({eig[0] + eig[1]: 1.0, eig[1] + eig[0]: 1.0}, [0])]),
                            (0.5, [({eig[0] + eig[0]: 1.0, eig[1] + eig[1]: -1.0}, list(range(n)))])])
            observables = []
            for i, o in enumerate(case["obs"]):
                kw = dict(evaluation_times=o["own"], tag_suffix=f"o{i}")
                typ = o["type"]
                if typ == "occupation":
                    ob = Occupation(one_state=one if level == "all" else None, **kw)
                elif typ == "correlation":
                    ob = CorrelationMatrix(one_state=one if level == "all" else None, **kw)
                elif typ == "energy":
                    ob = Energy(**kw)
                elif typ == "variance":
                    ob = EnergyVariance(**kw)
                elif typ == "second_moment":
                    ob = EnergySecondMoment(**kw)
                elif typ == "fidelity":
                    ob = Fidelity(target, **kw)
                elif typ == "expectation":
                    ob = Expectation(xop, **kw)
                else:
                    ob = BitStrings(num_shots=case["shots"], one_state=one if level == "all" else None, **kw)
                observables.append(ob)
            owns = [o["own"] for o in case["obs"] if o["own"] is not None]
            union = sorted(set(x for own in owns for x in own) | (set() if case["dflt"] == "Full" else set(case["dflt"])))
            state_obs = StateResult(evaluation_times=None if case["dflt"] == "Full" else union, tag_suffix="all")
            observables.append(state_obs)
            init = None
            if case["init"]:
                amps = {eig[0] * n: 0.6, eig[1] * n: 0.8j}
                init = QutipState.from_state_amplitudes(eigenstates=eig, amplitudes=amps)
            cfg = QutipConfig(observables=observables, default_evaluation_times=case["dflt"],
                              noise_model=NoiseModel(**noise), initial_state=init,
                              sampling_rate=case.get("rate", 1.0),
                              with_modulation=bool(case.get("modulated")))
            backend = QutipBackendV2(seq, config=cfg)
    except Exception as e:  # noqa: BLE001
        if case.get("modulated") and "extends further than sequence duration" in str(e):
            # property C11's finding (1.0 * T * 1e-3 > T / 1000 for some durations T): with
            # modulation the emulated duration is not known to the generator; not judged here
            try:
                from pulser.sampler import sample

                t_emu = sample(seq, modulation=True).max_duration
            except Exception:  # noqa: BLE001
                t_emu = None
            if t_emu is not None and 1.0 * t_emu * 1e-3 > t_emu / 1000:
                run["c11_duration"] = t_emu
                return run, viols
        bad(f"backend:construction-raises:{exc_name(e)}", f"building the backend raised {e!r}")
        return run, viols
    sim = backend._sim_obj
    T = sim.total_duration_ns
    try:
        with warnings.catch_warnings():
            warnings.simplefilter("ignore")
            res = backend.run()
    except Exception as e:  # noqa: BLE001
        sig = f"backend:run-raises:{exc_name(e)}:{branch}:{d}-level"
        if dflt_len_bad(case["dflt"]):
            sig = "eval-times:default-list-length-not-1"
        bad(sig, f"QutipBackendV2.run() raised {e!r} ({branch} branch, {d}-level qudits, noise {noise})")
        run.update(T=T, raised=True)
        return run, viols
    fed = [float(t / sim._tot_duration * 1e3) for t in sim._eval_times_array]
    specs = [(ob.tag, o["own"]) for ob, o in zip(observables, case["obs"])]
    stored = []
    for ob in observables:
        try:
            stored.append([float(x) for x in res.get_result_times(ob)])
        except ValueError:
            stored.append([])
    run.update(ok=True, T=T, fed=fed, stored=stored, snaps=[], d=d, n=n, one_idx=one_idx,
               own_state=None if case["dflt"] == "Full" else union)
    if res.total_duration != T or tuple(res.atom_order) != tuple(f"q{i}" for i in range(n)):
        bad("results:header", "total_duration / atom_order of the results differ from the sequence")
    times_oracle(case, T, case["dflt"], specs, stored[:-1], fed, 0, viols, must_emulate=True)
    retrieval_oracle(case, res, observables, viols)

    # states and Hamiltonians at the stored times
    try:
        st_times = res.get_result_times(state_obs)
        st_vals = [res.get_result(state_obs, t) for t in st_times]
    except Exception as e:  # noqa: BLE001
        bad("state:missing:" + exc_name(e), f"StateResult not retrievable: {e!r}")
        return run, viols
    snaps = []
    pfp = noise.get("p_false_pos", 0.0) or 0.0
    pfn = noise.get("p_false_neg", 0.0) or 0.0
    for ob, o, ts in zip(observables[:-1], case["obs"], stored[:-1]):
        for t in ts:
            if t not in st_times:
                bad("state:missing-at-time", f"no state stored at {t} although {ob.tag} has a value there")
                continue
            qs = st_vals[st_times.index(t)]
            sq = qs.to_qobj()
            mixed = sq.isoper
            tag = "mixed-state" if mixed else "pure-state"
            a = sq.full()
            rho = a if mixed else np.outer(a.reshape(-1), a.reshape(-1).conj())
            if tuple(qs.eigenstates) != eig or rho.shape[0] != d ** n:
                bad("state:wrong-space", f"state at {t} has eigenstates {qs.eigenstates} / shape {rho.shape}")
                continue
            Hm = sim.get_hamiltonian(t * res.total_duration, noiseless=True).full()
            defs = definitions(rho, Hm, d, n, one_idx)
            v = res.get_result(ob, t)
            typ = o["type"]
            snap = dict(type=typ, t=t, mixed=bool(mixed))
            try:
                if typ == "occupation":
                    if len(v) != n or any(not close(x, y) for x, y in zip(v, defs["occupation"])):
                        bad("occupation:wrong-value:" + tag, f"t={t}: occupation {list(v)} != {defs['occupation']}")
                    snap["value"] = [float(np.real(x)) for x in v]
                elif typ == "correlation":
                    if len(v) != n or any(not close(v[i][j], defs["correlation"][i][j]) for i in range(n) for j in range(n)):
                        bad("correlation:wrong-value:" + tag, f"t={t}: correlation matrix {v} != {defs['correlation']}")
                    snap["value"] = [[float(np.real(x)) for x in row] for row in v]
                elif typ == "energy":
                    if not close(v, defs["energy"]):
                        bad("energy:wrong-value:" + tag, f"t={t}: energy {v} != Tr(rho H) = {defs['energy']}")
                    snap["value"] = cplx(v)
                elif typ == "second_moment":
                    if not close(v, defs["second_moment"], 1e-8):
                        bad(moment_signatures(rho, Hm, mixed, v, None)[0],
                            f"t={t}: second moment {v} != Tr(rho H^2) = {defs['second_moment']}")
                    snap["value"] = float(v)
                elif typ == "variance":
                    if abs(v - defs["variance"]) > 1e-7 * (1 + abs(defs["second_moment"])):
                        bad(moment_signatures(rho, Hm, mixed, None, v)[1], f"t={t}: variance {v} != {defs['variance']}")
                    snap["value"] = float(v)
                elif typ == "fidelity":
                    fdef = rho[index_of(eig, one * n), index_of(eig, one * n)].real
                    if not close(v, fdef):
                        bad("fidelity:wrong-value:" + tag, f"t={t}: fidelity {v} != {fdef}")
                    snap["value"] = float(v)
                elif typ == "expectation":
                    xm = xop.to_qobj().full()
                    if not close(v, np.trace(rho @ xm)):
                        bad("expectation:wrong-value:" + tag, f"t={t}: expectation {v} != {np.trace(rho @ xm)}")
                    snap["value"] = cplx(v)
                    snap["op"] = quant(xm, 1)
                else:
                    dist = bit_distribution(rho, d, n, one_idx, pfp, pfn)
                    check_counts(dict(v), dist, case["shots"], "bitstrings", f"BitStrings at t={t}", case, viols)
                    continue
            except Exception as e:  # noqa: BLE001
                bad(f"{typ}:malformed-value:{exc_name(e)}", f"t={t}: stored value {v!r} cannot be checked: {e!r}")
                continue
            if d ** n <= 9 and len(snaps) < 3:
                snap["state"] = quant(a if mixed else a.reshape(1, -1), 50)
                snap["H"] = quant(Hm, 40)
                snaps.append(snap)
    run["snaps"] = snaps
    run["d"], run["n"], run["one_idx"] = d, n, one_idx
    return run, viols


def dflt_len_bad(dflt):
    return dflt != "Full" and len(dflt) != 1


def index_of(eig, s):
    k = 0
    for ch in s:
        k = k * len(eig) + eig.index(ch)
    return k


def run_case(case):
    kind = case["kind"]
    if kind == "obs":
        return run_obs(case)
    if kind == "alg":
        return run_alg(case)
    if kind == "times":
        return run_times(case)
    if kind == "backend":
        return run_backend(case)
    raise ValueError(kind)
