#!/bin/bash
# usage: tools_all.sh [seed] [jobs] : every claimed check, quick tier, on /repo (development aid)
seed=${1:-20260926}; jobs=${2:-4}
cd /verif
ls manifest.d | sed 's/.json//' | sort -u | { cat; echo C02; } | sort -u | xargs -P $jobs -I{} sh -c "VERIF_SEED=$seed ./check {} --tier quick 2>&1 | grep -E '^VIOLATION|^\[' | cut -c1-220"
